package main

import (
	"fmt"
	"go/token"
	"go/types"
	"sort"
	"strings"

	"golang.org/x/tools/go/ssa"
)

func init() {
	register("C09", &propCheck{Run: checkC09,
		Explain: "C09.1 guarded-by (must-lockset with helper summaries): the tracking maps, Valid/regCount flags and timeout status are only touched under RegisteredDecoys.m (W for writes); " +
			"C09.1b RegisteredDecoys.transports is only written by AddTransport/constructor, and main calls AddTransport before it starts any pipeline goroutine; " +
			"C09.2 the detector announcement has one call site, under the write lock, dominated by !Valid and preceded by Valid=true; the update has one site under the lock; " +
			"C09.3 every hand-off send in HandleRegUpdates/RunZMQ is a non-blocking select whose default reaches the dropped counter, and no goroutine is spawned per message; " +
			"C09.4 every blocking channel wait in the ingest pipeline also waits on ctx.Done(); " +
			"C09.5 held->acquired lock edges in the station packages are acyclic and nothing blocking (dial, sleep, channel op, probe) is reachable under RegisteredDecoys.m except the reviewed Redis publish. " +
			"Decides the structural synchronisation discipline for all schedules; does not decide serializability or lost updates.",
		Assume: []string{
			"mutex identity is the access path of the Lock receiver; RegisteredDecoys has one instance per RegistrationManager",
			"dynamic calls through struct fields of function type are resolved to every function stored in that field anywhere in the repository",
			"dependency code (redis, zmq) is not entered; the Redis publish under the lock is a reviewed, by-design exception",
		}})
}

func checkC09(c *Ctx) {
	r := c.R
	allFns := c.P.RepoFuncs()

	// ---- C09.1 guarded-by
	r.Rule("C09.1", "tracking maps and per-registration flags are accessed only under RegisteredDecoys.m", 30)
	checkGuardedBy(r, "C09.1", allFns, []guardSpec{
		{Owner: "lib.RegisteredDecoys", Field: "decoys", Mutex: "m"},
		{Owner: "lib.RegisteredDecoys", Field: "decoysTimeouts", Mutex: "m"},
		{Owner: "lib.DecoyRegistration", Field: "Valid", Mutex: "lib.RegisteredDecoys.m", Foreign: true},
		{Owner: "lib.DecoyRegistration", Field: "regCount", Mutex: "lib.RegisteredDecoys.m", Foreign: true},
		{Owner: "lib.DecoyTimeout", Field: "status", Mutex: "lib.RegisteredDecoys.m", Foreign: true},
	}, nil)

	// ---- C09.13 a phantom's registrations disappear only one by one: the per-phantom map is dropped only where it was
	// just seen empty, in the same function (one lock hold) - a deferred / batched release acts on emptiness that a
	// concurrent ingest may have ended, wiping a registration that was validated and announced in between
	r.Rule("C09.13", "delete(decoys, phantom) only under len(decoys[phantom]) == 0 tested in the same critical section", 1)
	{
		n := 0
		for _, f := range c.funcsOfPkgs("pkg/station/lib") {
			eachInstr(f, func(in ssa.Instruction) {
				call, ok := in.(*ssa.Call)
				if !ok {
					return
				}
				b, isB := call.Call.Value.(*ssa.Builtin)
				if !isB || b.Name() != "delete" || len(call.Call.Args) != 2 {
					return
				}
				mp := pathOf(call.Call.Args[0])
				if !strings.HasSuffix(mp, ".decoys") {
					return
				}
				n++
				keyp := pathOf(call.Call.Args[1])
				g := guardedM(f, in, func(cnd string, pol bool) bool {
					return pol && strings.HasPrefix(cnd, "(0 == len("+mp+"[") && strings.Contains(cnd, keyp)
				})
				// no unlock of the registry lock between the emptiness test and the delete: the test is in this function and
				// the lockset analysis (C09.1) requires the write lock at both; a release in between shows as a second Lock
				relock := false
				if g {
					eachInstr(f, func(in2 ssa.Instruction) {
						if c2, ok := in2.(*ssa.Call); ok {
							if _, _, op := lockOp(&c2.Call); op == "unlock" {
								if before, _ := reach(f, in2, isInstr(in), nil, nil); before {
									if _, isDefer := in2.(*ssa.Defer); !isDefer {
										relock = true
									}
								}
							}
						}
					})
				}
				r.Check(g && !relock, "C09.13", fnName(f)+": delete("+firstN(mp, 30)+", "+firstN(keyp, 30)+") under its emptiness test", in.Pos(), fnName(f), "guarded by len(decoys[phantom]) == 0 in the same function, no unlock in between",
					"the per-phantom map is dropped without (or not in the same critical section as) the test that it is empty: a registration ingested, validated and announced on that phantom in between is wiped - it becomes invisible to lookups, its timeout record is orphaned and the next delivery is announced as new again")
			})
		}
		if n == 0 {
			r.Unk("C09.13", "delete(decoys, phantom)", token.NoPos, "", "no delete on the per-phantom table found")
		}
	}

	// ---- C09.12 no delivery is lost: every delivery that passes validation goes through the counting tracker
	// (TrackRegistration -> track: inserts, or counts the duplicate) before ingest returns, on every path - whichever
	// worker wins a race, N deliveries leave a count of N as in every serial order
	r.Rule("C09.12", "every validated delivery passes TrackRegistration before ingestRegistration returns", 1)
	if f := c.fn("C09.12", "pkg/station/lib", "RegistrationManager", "ingestRegistration"); f != nil {
		valL, okV := findOneDeep(f, shortIs("ValidateRegistration"))
		if okV && len(valL.chain) > 0 {
			// validation (and with it tracking) moved into a phase helper: the rule is read there
			f = valL.in
			valL, okV = findOneDeep(f, shortIs("ValidateRegistration"))
		}
		tracks := findDeep(f, shortIs("TrackRegistration"), 2)
		if !okV || len(tracks) == 0 {
			r.Unk("C09.12", "ingestRegistration: ValidateRegistration / TrackRegistration", f.Pos(), fnName(f), "not found")
		} else {
			v := valL.toRoot(pathOf(valL.value()))
			passed := edgesEstablishing(f, atomMatcher(Atom{v + "#0", true}))
			errNil := edgesEstablishing(f, atomMatcher(Atom{"(" + orderEq("nil", v+"#1") + ")", true}))
			isTrack := func(in ssa.Instruction) bool {
				for _, t := range tracks {
					if in == t.site() && mustPassDeep(t) {
						return true
					}
				}
				return false
			}
			// from the point where validation has passed (both tests), a return without the tracker
			lost := false
			var wit []int
			starts := map[*ssa.BasicBlock]bool{}
			for e := range passed {
				starts[f.Blocks[e.from].Succs[e.slot]] = true
			}
			for e := range errNil {
				starts[f.Blocks[e.from].Succs[e.slot]] = true
			}
			failed := edgesEstablishing(f, atomMatcher(Atom{v + "#0", false}, Atom{"(" + orderEq("nil", v+"#1") + ")", false}))
			for b := range starts {
				if hit, w := reachAt(f, b, isReturn, isTrack, failed); hit {
					lost, wit = true, w
				}
			}
			if len(starts) == 0 {
				r.Unk("C09.12", "ingestRegistration: validation outcome", f.Pos(), fnName(f), "no branch on the result of ValidateRegistration found")
			} else if lost {
				r.Bad("C09.12", "ingestRegistration: a validated delivery can return without passing TrackRegistration", valL.site().Pos(), fnName(f),
					"a path on which validation passed returns without the counting tracker: the delivery that loses a race with another worker (or takes that path for any other reason) leaves no trace, so N deliveries are recorded as fewer than N - an outcome no serial order produces", r.blockPath(f, wit)...)
			} else {
				r.OK("C09.12", "ingestRegistration: every validated delivery is tracked (inserted or counted)", valL.site().Pos(), fmt.Sprintf("%d TrackRegistration site(s), must-pass from the validation-passed edges to every return", len(tracks)))
			}
		}
	}

	// ---- C09.11 an ingest worker never waits for a peer: the share request (an HTTP POST without timeout or context) is
	// always started as its own goroutine - a worker only looks at the stop request between messages, so a silent
	// peer would otherwise keep the pipeline from winding down
	r.Rule("C09.11", "tryShareRegistrationOverAPI is only ever started as a goroutine", 1)
	{
		n := 0
		for _, f := range c.funcsOfPkgs("pkg/station/lib") {
			for _, ci := range callsIn(f, shortIs("tryShareRegistrationOverAPI")) {
				n++
				_, isGo := ci.(*ssa.Go)
				r.Check(isGo, "C09.11", fnName(f)+": share over the API in its own goroutine", ci.Pos(), fnName(f), "go statement",
					"the share request runs on the ingest worker itself: http.Post has no timeout, a peer that accepts the request and does not answer blocks the worker for good, the registration is not validated meanwhile and after a stop request HandleRegUpdates hangs in wg.Wait()")
			}
		}
		if n == 0 {
			r.Unk("C09.11", "tryShareRegistrationOverAPI call sites", token.NoPos, "", "none found")
		}
	}

	// ---- C09.16 shutdown: the hand-off channel is closed only when no worker can receive from it any more - after the
	// wait for the workers (a worker that finishes a registration after the close receives the zero message: the
	// unchecked type assertion on it panics the station in the middle of the stop request)
	r.Rule("C09.16", "a channel handed to worker goroutines is closed only after the wait for those workers", 1)
	for _, f := range c.funcsOfPkgs("pkg/station/lib") {
		if f.Blocks == nil {
			continue
		}
		// channels made here and handed to goroutines started here
		handed := map[ssa.Value]bool{}
		eachInstr(f, func(in ssa.Instruction) {
			if g, ok := in.(*ssa.Go); ok {
				for _, a := range g.Call.Args {
					v := a
					if ct, ok := v.(*ssa.ChangeType); ok {
						v = ct.X
					}
					if _, isMk := v.(*ssa.MakeChan); isMk {
						handed[v] = true
					}
				}
			}
		})
		if len(handed) == 0 {
			continue
		}
		isWait := func(in ssa.Instruction) bool {
			call, ok := in.(*ssa.Call)
			return ok && calleeName(&call.Call) == "(*sync.WaitGroup).Wait"
		}
		eachInstr(f, func(in ssa.Instruction) {
			ci, ok := in.(ssa.CallInstruction)
			if !ok {
				return
			}
			b, isB := ci.Common().Value.(*ssa.Builtin)
			if !isB || b.Name() != "close" || len(ci.Common().Args) != 1 {
				return
			}
			ch := ci.Common().Args[0]
			if ct, ok := ch.(*ssa.ChangeType); ok {
				ch = ct.X
			}
			if !handed[ch] {
				return
			}
			if _, isDefer := in.(*ssa.Defer); isDefer {
				// runs at function exit: every return must come after the wait
				early, w := reach(f, in, isReturn, isWait, nil)
				if early {
					r.Bad("C09.16", fnName(f)+": deferred close of the hand-off channel runs before the workers were waited for", in.Pos(), fnName(f),
						"a return is reachable without wg.Wait(): the deferred close runs while workers may still receive from the channel - a worker gets the zero message and its type assertion panics", r.blockPath(f, w)...)
				} else {
					r.OK("C09.16", fnName(f)+": the hand-off channel is closed (deferred) after the wait for the workers", in.Pos(), "every return after the defer passes wg.Wait()")
				}
				return
			}
			early, w := reach(f, nil, isInstr(in), isWait, nil)
			if early {
				r.Bad("C09.16", fnName(f)+": close of the hand-off channel before the wait for the workers", in.Pos(), fnName(f),
					"the channel the workers receive from is closed while they may still be running: a worker that returns to its select after the close receives the zero message, and the unchecked type assertion on it panics the station during shutdown", r.blockPath(f, w)...)
			} else {
				r.OK("C09.16", fnName(f)+": the hand-off channel is closed after the wait for the workers", in.Pos(), "every path to the close passes wg.Wait()")
			}
		})
	}

	// ---- C09.17 "nothing deadlocks", in the probe the ingest workers share: the LRU library calls the cache's eviction
	// callback from inside Add / Remove / Resize, and the callback takes the cache mutex - so no call into the LRU is
	// made while that mutex may be held (in any mode: a read lock held by the caller blocks the callback's write lock)
	checkLRUNotUnderLock(c, "C09.17")
	// ---- C09.18 the policy lists the ingest workers read without a lock are replaced whole, never rebuilt in place
	// (shared with C19.2 / C06.9)
	r.Rule("C09.18", "a reload swaps in the parsed policy lists of the new configuration; it never re-parses into the live object", 2)
	checkReloadTakeover(c, "C09.18")

	// ---- C09.20 "nothing deadlocks": the statistics report calls the registered modules (interface calls that end in the
	// registration manager, which takes the table lock) holding none of the Stats mutexes - the sweep takes the same two
	// locks in the other order (table lock, then genMutex in ExpireReg)
	r.Rule("C09.20", "the statistics report calls its modules with no Stats mutex held", 1)
	if f := c.fn("C09.20", "pkg/station/lib", "Stats", "PrintStats"); f != nil {
		lf := analyseLocks(f, lockSet{})
		n, bad := 0, ""
		var pos token.Pos = f.Pos()
		eachInstr(f, func(in ssa.Instruction) {
			call, ok := in.(*ssa.Call)
			if !ok || !call.Call.IsInvoke() {
				return
			}
			n++
			for k := range realLocks(lf.May[in]) {
				bad = k
				pos = in.Pos()
			}
		})
		if n == 0 {
			r.Unk("C09.20", "PrintStats: calls of the stats modules", f.Pos(), fnName(f), "no interface call found")
		} else {
			r.Check(bad == "", "C09.20", "PrintStats: modules are called with no lock held", pos, fnName(f), fmt.Sprintf("%d interface call(s), empty may-held set", n),
				"the report calls a stats module while holding "+bad+": the registration manager's module takes the table lock, and the expiry sweep takes the table lock and then "+bad+" (ExpireReg) - a lock-order inversion that freezes the table write lock, and with it ingest, lookups and shutdown")
		}
	}

	// ---- C09.21 duplicate detection and the sweep agree on what is tracked: registrationExists answers "not tracked" only
	// when a table lookup missed - never for an entry that is present but "about to go" (the sweep removes by key what it
	// collected earlier; an entry re-created under that key in between is deleted right after it was announced)
	r.Rule("C09.21", "registrationExists says 'not tracked' only on a lookup miss", 1)
	if f := c.fn("C09.21", "pkg/station/lib", "RegisteredDecoys", "registrationExists"); f != nil {
		n, bad := 0, false
		var pos token.Pos = f.Pos()
		eachInstr(f, func(in ssa.Instruction) {
			ret, ok := in.(*ssa.Return)
			if !ok || len(ret.Results) != 1 {
				return
			}
			cst, isC := returnedValue(ret, 0, nil).(*ssa.Const)
			if !isC || cst.Value != nil {
				return
			}
			n++
			if !guardedM(f, in, func(cnd string, pol bool) bool { return !pol && strings.HasSuffix(cnd, "]#1") }) {
				bad = true
				pos = in.Pos()
			}
		})
		if n == 0 {
			r.Unk("C09.21", "registrationExists: 'not tracked' returns", f.Pos(), fnName(f), "no return of nil found")
		} else {
			r.Check(!bad, "C09.21", "registrationExists: nil only behind a missed lookup", pos, fnName(f), fmt.Sprintf("%d nil return(s), each dominated by a comma-ok miss", n),
				"an entry that is present in the table can be reported as not tracked (a time or state test decides): the delivery re-creates it under the same key and announces it as new, and the sweep - which collected that key earlier - removes the new entry: announced, then gone, with no serial order that explains it")
		}
	}

	// ---- C09.19 no update is lost to a table swap (shared with C08.11)
	checkTablesNeverReplaced(c, "C09.19")

	// ---- C09.15 shutdown: a goroutine is counted before it is started - Add inside the goroutine races with Wait
	r.Rule("C09.15", "no goroutine registers itself with the wait group that waits for it", 1)
	{
		started := map[*ssa.Function]bool{}
		fns := c.funcsOfPkgs("pkg/station/lib", "cmd/application")
		for _, f := range fns {
			eachInstr(f, func(in ssa.Instruction) {
				if g, ok := in.(*ssa.Go); ok {
					if cal := g.Call.StaticCallee(); cal != nil {
						started[cal] = true
					} else if mc, ok := g.Call.Value.(*ssa.MakeClosure); ok {
						if fn, ok := mc.Fn.(*ssa.Function); ok {
							started[fn] = true
						}
					}
				}
			})
		}
		n, bad := 0, 0
		for _, f := range fns {
			if !started[f] {
				continue
			}
			eachInstr(f, func(in ssa.Instruction) {
				call, ok := in.(*ssa.Call)
				if !ok || calleeName(&call.Call) != "(*sync.WaitGroup).Add" {
					return
				}
				n++
				// the wait group comes from outside the goroutine (a parameter or a captured variable)
				root := call.Call.Args[0]
				for i := 0; i < 6; i++ {
					switch x := root.(type) {
					case *ssa.UnOp:
						root = x.X
						continue
					case *ssa.FieldAddr:
						root = x.X
						continue
					}
					break
				}
				_, isParam := root.(*ssa.Parameter)
				_, isFree := root.(*ssa.FreeVar)
				if isParam || isFree {
					bad++
					r.Bad("C09.15", fnName(f)+": adds itself to "+firstN(pathOf(call.Call.Args[0]), 30)+" after it was started", in.Pos(), fnName(f),
						"the goroutine increments the wait group it was handed: the owner's Wait can run before the increment, return while workers are still starting and let the deferred clean-up (closing the channel the workers read) run under them - a stop request during start-up panics a worker or trips the WaitGroup misuse check")
				}
			})
		}
		if bad == 0 {
			r.OK("C09.15", "goroutines of the station are counted by their starter", token.NoPos, fmt.Sprintf("%d started function(s) examined, %d WaitGroup.Add call(s) inside them, none on a wait group from outside", len(started), n))
		}
	}

	// ---- C09.14 a tracked registration leaves the table through the expiry sweep only: any other removal races with
	// the delivery that validates (and announces) the same entry - unless it is made under a not-valid test
	checkTableDeletes(c, "C09.14")

	// ---- C09.10 a single remover: removeRegistration uses the record it looks up without a found-test, which is only
	// safe while nothing else can delete records between the sweeper's collection and removal phases
	r.Rule("C09.10", "records are removed by one sweeper only (or removeRegistration tolerates a record that is already gone)", 1)
	if rem := c.fn("C09.10", "pkg/station/lib", "RegisteredDecoys", "removeRegistration"); rem != nil {
		// does it tolerate a missing record? every field read of the looked-up record is dominated by a found / non-nil test
		tolerant := true
		nUse := 0
		eachInstr(rem, func(in ssa.Instruction) {
			fa, ok := in.(*ssa.FieldAddr)
			if !ok {
				return
			}
			xp := pathOf(fa.X)
			if !strings.HasSuffix(xp, ".decoysTimeouts["+P(rem, 1)+"]") && !strings.HasSuffix(xp, ".decoysTimeouts["+P(rem, 1)+"]#0") {
				return
			}
			nUse++
			if !guardedM(rem, in, func(cnd string, pol bool) bool {
				return (strings.HasSuffix(cnd, ".decoysTimeouts["+P(rem, 1)+"]#1") && pol) || (strings.Contains(cnd, "nil") && strings.Contains(cnd, ".decoysTimeouts["+P(rem, 1)+"]") && !pol)
			}) {
				tolerant = false
			}
		})
		if nUse == 0 {
			r.Unk("C09.10", "removeRegistration: use of the looked-up record", rem.Pos(), fnName(rem), "no field read of decoysTimeouts[index] found")
		} else if tolerant {
			r.OK("C09.10", "removeRegistration: tolerates a record that is already gone", rem.Pos(), fmt.Sprintf("%d field reads, each behind a found-test", nUse))
		} else {
			// single remover: one static chain main-sweeper -> RemoveOldRegistrations -> removeOldRegistrations -> removeRegistration
			startedByMain := map[*ssa.Function]bool{}
			if mainFn := c.P.Func(repoMod+"/cmd/application", "", "main"); mainFn != nil {
				for fn := range goStarted(mainFn) {
					startedByMain[fn] = true
				}
			}
			type link struct{ callee, caller string }
			chain := []link{{"removeRegistration", "removeOldRegistrations"}, {"removeOldRegistrations", "RemoveOldRegistrations"}, {"RemoveOldRegistrations", "main$"}}
			okk := true
			var why []string
			var pos token.Pos = rem.Pos()
			for _, l := range chain {
				var sites []string
				for _, f := range c.P.RepoFuncs() {
					for _, ci := range callsIn(f, shortIs(l.callee)) {
						if cal := ci.Common().StaticCallee(); cal == nil || !strings.HasPrefix(fnPkgPath(cal), repoMod+"/pkg/station/lib") {
							continue
						}
						sites = append(sites, fnName(f))
						matches := strings.HasSuffix(fnName(f), "."+l.caller) || (l.caller == "main$" && (strings.Contains(fnName(f), "cmd/application.main$") || startedByMain[f]))
						if !matches {
							okk = false
							pos = ci.Pos()
							why = append(why, l.callee+" is also called from "+fnName(f))
						}
						if _, isGo := ci.(*ssa.Go); isGo {
							okk = false
							why = append(why, l.callee+" is started as a goroutine in "+fnName(f))
						}
					}
				}
				if len(sites) != 1 {
					okk = false
					why = append(why, fmt.Sprintf("%s has %d call sites %v, expected exactly one", l.callee, len(sites), sites))
				}
			}
			// the sweeper closure is started once (its go statement is not in a loop)
			if mainFn := c.P.Func(repoMod+"/cmd/application", "", "main"); mainFn != nil {
				eachInstr(mainFn, func(in ssa.Instruction) {
					g, ok := in.(*ssa.Go)
					if !ok {
						return
					}
					var fn *ssa.Function
					if mc, ok := g.Call.Value.(*ssa.MakeClosure); ok {
						fn, _ = mc.Fn.(*ssa.Function)
					} else {
						fn = g.Call.StaticCallee()
					}
					if fn != nil && fn.Blocks != nil && len(callsIn(fn, shortIs("RemoveOldRegistrations"))) > 0 {
						if again, _ := reach(mainFn, g, isInstr(g), nil, nil); again {
							okk = false
							why = append(why, "the sweeper goroutine is started in a loop")
						}
					}
				})
			}
			sort.Strings(why)
			r.Check(okk, "C09.10", "removeRegistration: called by the one sweeper only (it does not tolerate a record that is already gone)", pos, fnName(rem), "single static chain main sweeper -> RemoveOldRegistrations -> removeOldRegistrations -> removeRegistration",
				"removeRegistration dereferences decoysTimeouts[index] without a found-test; with a second remover ("+firstN(strings.Join(why, "; "), 160)+") a record collected by one sweep can be gone when the other removes it: nil dereference, the station crashes")
		}
	}

	// ---- C09.6 no re-entrant acquisition of the registration lock (sync.RWMutex: a second RLock behind a waiting
	// writer never returns) - directly or through a callee that takes it
	r.Rule("C09.6", "RegisteredDecoys.m is never acquired while it may already be held (directly or through a callee)", 10)
	checkNoReentrancy(r, "C09.6", c.funcsOfPkgs("pkg/station/lib"), func(p string) bool {
		return strings.HasSuffix(p, "registeredDecoys.m") || strings.HasSuffix(p, "r.m") || p == "@lib.RegisteredDecoys.m" || strings.HasSuffix(p, ".m")
	})

	// ---- C09.8 every acquisition is released on all paths
	r.Rule("C09.8", "every Lock/RLock in the station library is released on all paths", 15)
	checkLockLeaks(r, "C09.8", c.funcsOfPkgs("pkg/station/lib"))

	// ---- C09.7 guarded containers do not leave the lock: no function returns a guarded map (or an inner map of it)
	r.Rule("C09.7", "no function hands out a guarded tracking map itself (only copies built under the lock)", 1)
	nRet := 0
	for _, f := range c.funcsOfPkgs("pkg/station/lib") {
		eachInstr(f, func(in ssa.Instruction) {
			ret, ok := in.(*ssa.Return)
			if !ok || in.Block().Comment == "recover" {
				return
			}
			for i := range ret.Results {
				rv := returnedValue(ret, i, nil)
				if _, isMap := rv.Type().Underlying().(*types.Map); !isMap {
					continue
				}
				// walk through phis
				var leaves []ssa.Value
				var walk func(v ssa.Value, d int)
				seen := map[ssa.Value]bool{}
				walk = func(v ssa.Value, d int) {
					if d > 6 || seen[v] {
						return
					}
					seen[v] = true
					if ph, ok := v.(*ssa.Phi); ok {
						for _, e := range ph.Edges {
							walk(e, d+1)
						}
						return
					}
					leaves = append(leaves, v)
				}
				walk(rv, 0)
				for _, lv := range leaves {
					vp := pathOf(lv)
					guardedMap := false
					for _, fld := range []string{".decoys", ".decoysTimeouts"} {
						if strings.HasSuffix(vp, fld) || strings.Contains(vp, fld+"[") {
							guardedMap = true
						}
					}
					if _, fresh := lv.(*ssa.MakeMap); fresh || !guardedMap {
						continue
					}
					nRet++
					r.Bad("C09.7", fnName(f)+": returns the guarded map "+firstN(vp, 50), ret.Pos(), fnName(f),
						"the function returns "+firstN(vp, 60)+" itself: the caller reads (ranges over) it after the lock has been released while workers and the sweeper write it - unsynchronised access, `concurrent map iteration and map write`, and entries that were never validated become visible to the connection handler")
				}
			}
		})
	}
	if nRet == 0 {
		r.OK("C09.7", "no guarded tracking map is returned by any function of the station library", token.NoPos, "every map-typed return is a fresh map or unrelated to decoys / decoysTimeouts")
	}

	// ---- C09.1b transports map: written only before the goroutines start
	r.Rule("C09.1b", "RegisteredDecoys.transports is written only by AddTransport (under the lock) and the constructor; main registers transports before starting the pipeline", 2)
	for _, f := range allFns {
		for _, a := range collectAccesses(f, guardSpec{Owner: "lib.RegisteredDecoys", Field: "transports", Mutex: "m"}) {
			if !a.write {
				continue
			}
			name := fnName(f)
			okW := strings.HasSuffix(name, ".AddTransport") || strings.HasSuffix(name, ".NewRegisteredDecoys") || freshRoot(a.fa, f)
			r.Check(okW, "C09.1b", name+": write "+a.desc, a.in.Pos(), name, "allowed writer",
				"the transports map is read without a lock by every ingest worker (ValidateRegistration, registrationExists callers); a writer other than start-up registration races with them")
		}
	}
	if mainFn := c.fn("C09.1b", "cmd/application", "", "main"); mainFn != nil {
		var adds []ssa.Instruction
		eachInstr(mainFn, func(in ssa.Instruction) {
			if call, ok := in.(*ssa.Call); ok && strings.HasSuffix(calleeName(&call.Call), "RegistrationManager).AddTransport") {
				adds = append(adds, in)
			}
		})
		if len(adds) == 0 {
			r.Unk("C09.1b", "main: AddTransport call", mainFn.Pos(), fnName(mainFn), "no AddTransport call found in main")
		}
		for _, a := range adds {
			// no `go` statement that starts a pipeline goroutine can precede (reach) the AddTransport call
			bad := false
			eachInstr(mainFn, func(in ssa.Instruction) {
				g, ok := in.(*ssa.Go)
				if !ok {
					return
				}
				n := calleeName(&g.Call)
				if !(strings.Contains(n, "HandleRegUpdates") || strings.Contains(n, "acceptConnections") || strings.Contains(n, "RunZMQ")) {
					return
				}
				if ok, _ := reach(mainFn, g, isInstr(a), nil, nil); ok {
					bad = true
					r.Bad("C09.1b", "main: AddTransport reachable after go "+shortName(n), a.Pos(), fnName(mainFn),
						"a transport is registered after the ingest/connection goroutines were started: unsynchronised map write against their reads")
				}
			})
			if !bad {
				r.OK("C09.1b", "main: AddTransport precedes every pipeline go statement", a.Pos(), "no path from a pipeline go statement to this call")
			}
		}
	}

	// ---- C09.2 announce once
	r.Rule("C09.2", "single, locked, guarded call site for the detector announcement and for the update", 2)
	type dynSite struct {
		f    *ssa.Function
		call *ssa.Call
	}
	sites := map[string][]dynSite{}
	for _, f := range allFns {
		eachInstr(f, func(in ssa.Instruction) {
			call, ok := in.(*ssa.Call)
			if !ok || call.Call.IsInvoke() || call.Call.StaticCallee() != nil {
				return
			}
			if u, ok := call.Call.Value.(*ssa.UnOp); ok && u.Op == token.MUL {
				if o, fld, ok := fieldOwner(u.X); ok && o == "lib.RegisteredDecoys" {
					sites[fld] = append(sites[fld], dynSite{f, call})
				}
			}
		})
	}
	for _, fld := range []string{"registerForDetector", "updateInDetector"} {
		ss := sites[fld]
		if len(ss) != 1 {
			var where []string
			for _, s := range ss {
				where = append(where, fnName(s.f))
			}
			if len(ss) == 0 {
				r.Unk("C09.2", fld+": call site", token.NoPos, "", "no call through RegisteredDecoys."+fld+" found")
			} else {
				r.Bad("C09.2", fmt.Sprintf("%s called from %d sites: %s", fld, len(ss), strings.Join(where, ", ")), ss[1].call.Pos(), fnName(ss[1].f),
					"the announcement must have exactly one call site (inside the locked, guarded validate step); a second site can announce a registration twice or before validation")
			}
			continue
		}
		s := ss[0]
		lf := analyseLocks(s.f, lockSet{})
		held, okL := holdsOwner(s.f, lf.Must[s.call], "lib.RegisteredDecoys.m", true)
		r.Check(okL, "C09.2", fnName(s.f)+": "+fld+" under the write lock", s.call.Pos(), fnName(s.f), "must-lockset contains "+held,
			"the announcement is made without holding RegisteredDecoys.m for writing: two workers can both announce")
		if fld == "registerForDetector" && len(s.call.Call.Args) == 1 {
			arg := pathOf(s.call.Call.Args[0])
			validAtom := Atom{arg + ".Valid", false}
			g := guarded(s.f, s.call, validAtom)
			r.Check(g, "C09.2", fnName(s.f)+": announce only if !"+arg+".Valid", s.call.Pos(), fnName(s.f), "call unreachable unless "+validAtom.String(),
				"the New announcement is not dominated by the already-valid test: a duplicate delivery announces the registration again")
			// Valid=true stored on the same object before the announcement, on every path
			isSet := func(in ssa.Instruction) bool {
				st, ok := in.(*ssa.Store)
				if !ok {
					return false
				}
				o, f2, ok := fieldOwner(st.Addr)
				if !ok || o != "lib.DecoyRegistration" || f2 != "Valid" {
					return false
				}
				cv, isC := constOf(st.Val)
				return isC && cv.String() == "true" && pathOf(st.Addr) == arg+".Valid"
			}
			reachNoSet, w := reach(s.f, nil, isInstr(s.call), isSet, nil)
			if reachNoSet {
				r.Bad("C09.2", fnName(s.f)+": Valid=true not stored before the announcement", s.call.Pos(), fnName(s.f),
					"a path reaches the announcement without marking the registration valid: the guard can never trip and every delivery re-announces", r.blockPath(s.f, w)...)
			} else {
				r.OK("C09.2", fnName(s.f)+": "+arg+".Valid = true precedes the announcement on every path", s.call.Pos(), "must-pass store")
			}
		}
	}

	// ---- C09.3 non-blocking hand-off
	r.Rule("C09.3", "hand-off sends are non-blocking selects whose default case counts the drop; fixed worker pool", 2)
	type hand struct{ pkg, recv, name, counter string }
	for _, h := range []hand{{"pkg/station/lib", "RegistrationManager", "HandleRegUpdates", "addDroppedMessage"}, {"pkg/station/lib", "ZMQIngester", "RunZMQ", "addDroppedZMQMessage"}} {
		f0 := c.fn("C09.3", h.pkg, h.recv, h.name)
		if f0 == nil {
			continue
		}
		nSend := 0
		// the hand-off function and the helpers of the package it runs the loop in (called, not started)
		for _, f := range withChanHelpers(f0) {
			eachInstr(f, func(in ssa.Instruction) {
				switch x := in.(type) {
				case *ssa.Send:
					nSend++
					r.Bad("C09.3", fnName(f)+": blocking send on "+pathOf(x.Chan), in.Pos(), fnName(f),
						"a bare channel send blocks the receiver when all workers are busy instead of dropping and counting the registration")
				case *ssa.Select:
					hasSend := false
					for _, st := range x.States {
						if st.Dir == 1 /* types.SendOnly */ {
							hasSend = true
						}
					}
					if !hasSend {
						return
					}
					nSend++
					if x.Blocking {
						r.Bad("C09.3", fnName(f)+": select with send but no default", in.Pos(), fnName(f),
							"the hand-off select has no default case: when the buffer is full the receiver blocks instead of dropping")
						return
					}
					// the default branch (index matches no state) must pass the drop counter before the next iteration / return
					var trueEdges = map[edge]bool{}
					for k := range x.States {
						for e := range edgesEstablishing(f, atomMatcher(Atom{"(" + orderEq(fmt.Sprint(k), pathOf(x)+"#0") + ")", true})) {
							trueEdges[e] = true
						}
					}
					isCounter := func(in2 ssa.Instruction) bool {
						if cc, ok := in2.(*ssa.Call); ok {
							return calleeShort(&cc.Call) == h.counter
						}
						return false
					}
					isNext := func(in2 ssa.Instruction) bool {
						if in2 == in {
							return true
						}
						if isReturn(in2) {
							return true
						}
						if u, ok := in2.(*ssa.UnOp); ok && u.Op == token.ARROW {
							return true
						}
						if s2, ok := in2.(*ssa.Select); ok && s2 != x {
							return true
						}
						if cc, ok := in2.(*ssa.Call); ok && strings.HasSuffix(calleeName(&cc.Call), "RecvBytes") {
							return true
						}
						return false
					}
					miss, w := reach(f, in, isNext, isCounter, trueEdges)
					if miss {
						r.Bad("C09.3", fnName(f)+": default case does not reach "+h.counter, in.Pos(), fnName(f),
							"a registration dropped because all workers are busy is not counted", r.blockPath(f, w)...)
					} else {
						r.OK("C09.3", fnName(f)+": non-blocking hand-off, default -> "+h.counter, in.Pos(), "every default-path from the select passes the counter before the next wait")
					}
				}
			})
		}
		if nSend == 0 {
			r.Unk("C09.3", fnName(f0)+": hand-off send", f0.Pos(), fnName(f0), "no channel send found in the hand-off function")
		}
		// no goroutine per message: no go statement reachable after a channel receive
		for _, f := range withChanHelpers(f0) {
			var recvs []ssa.Instruction
			eachInstr(f, func(in ssa.Instruction) {
				if _, ok := isChanRecv(in); ok {
					recvs = append(recvs, in)
				}
				if s, ok := in.(*ssa.Select); ok {
					for _, st := range s.States {
						if st.Dir == 2 /* RecvOnly */ && !isDoneChan(st.Chan) {
							recvs = append(recvs, in)
						}
					}
				}
				if cc, ok := in.(*ssa.Call); ok && strings.HasSuffix(calleeName(&cc.Call), "RecvBytes") {
					recvs = append(recvs, in)
				}
			})
			perMsg := false
			eachInstr(f, func(in ssa.Instruction) {
				g, ok := in.(*ssa.Go)
				if !ok {
					return
				}
				for _, rc := range recvs {
					if ok, _ := reach(f, rc, isInstr(g), nil, nil); ok {
						perMsg = true
						r.Bad("C09.3", fnName(f)+": go statement per received message", g.Pos(), fnName(f),
							"a goroutine is started for each message instead of handing off to the fixed worker pool: overload is unbounded")
						return
					}
				}
			})
			if !perMsg {
				r.OK("C09.3", fnName(f)+": no goroutine is spawned after a message receive", f.Pos(), fmt.Sprintf("%d receive site(s) examined", len(recvs)))
			}
		}
	}

	// ---- C09.4 stop-aware waits
	r.Rule("C09.4", "every blocking channel wait in the ingest pipeline includes ctx.Done()", 3)
	var pipeline []*ssa.Function
	for _, a := range [][3]string{{"pkg/station/lib", "RegistrationManager", "HandleRegUpdates"}, {"pkg/station/lib", "RegistrationManager", "startIngestThread"}} {
		if f := c.fn("C09.4", a[0], a[1], a[2]); f != nil {
			pipeline = append(pipeline, f)
		}
	}
	if mainFn := c.P.Func(repoMod+"/cmd/application", "", "main"); mainFn != nil {
		// the sweeper goroutine: closure in main that calls RemoveOldRegistrations
		for _, a := range mainFn.AnonFuncs {
			if len(callsIn(a, shortIs("RemoveOldRegistrations"))) > 0 {
				pipeline = append(pipeline, a)
			}
		}
		for a := range goStarted(mainFn) {
			if a.Parent() == nil && len(callsIn(a, shortIs("RemoveOldRegistrations"))) > 0 {
				pipeline = append(pipeline, a)
			}
		}
	}
	{
		var expanded []*ssa.Function
		seenP := map[*ssa.Function]bool{}
		for _, f := range pipeline {
			for _, g := range withChanHelpers(f) {
				if !seenP[g] {
					seenP[g] = true
					expanded = append(expanded, g)
				}
			}
		}
		// a pipeline function whose loop moved into a helper has no wait of its own any more: only the expanded set
		// must contain waits
		var keep []*ssa.Function
		for _, g := range expanded {
			has := false
			eachInstr(g, func(in ssa.Instruction) {
				if _, ok := isChanRecv(in); ok {
					has = true
				}
				if s, ok := in.(*ssa.Select); ok && (s.Blocking || len(s.States) > 0) {
					for _, st := range s.States {
						if st.Dir == 2 {
							has = true
						}
					}
					if s.Blocking {
						has = true
					}
				}
			})
			isRoot := false
			for _, f := range pipeline {
				isRoot = isRoot || f == g
			}
			if has || (isRoot && len(withChanHelpers(g)) == 1) {
				keep = append(keep, g)
			}
		}
		pipeline = keep
	}
	for _, f := range pipeline {
		n := 0
		eachInstr(f, func(in ssa.Instruction) {
			if ch, ok := isChanRecv(in); ok {
				n++
				if isDoneChan(ch) {
					r.OK("C09.4", fnName(f)+": receive on "+pathOf(ch), in.Pos(), "the stop signal itself")
				} else {
					r.Bad("C09.4", fnName(f)+": bare receive on "+pathOf(ch), in.Pos(), fnName(f),
						"a receive (or range) on "+pathOf(ch)+" alone never observes the stop request while the channel is idle: shutdown hangs in wg.Wait()")
				}
			}
			if s, ok := in.(*ssa.Select); ok {
				has, recvOther := false, false
				for _, st := range s.States {
					if st.Dir == 2 && isDoneChan(st.Chan) {
						has = true
					} else if st.Dir == 2 {
						recvOther = true
					}
				}
				if s.Blocking {
					n++
					r.Check(has, "C09.4", fnName(f)+": blocking select "+selectDesc(s), in.Pos(), fnName(f), "has a ctx.Done() case",
						"a blocking select without a ctx.Done() case cannot be interrupted by the stop request")
				} else if recvOther {
					// a polling receive: as long as the channel has something the loop never reaches a wait that sees the
					// stop request
					n++
					r.Check(has, "C09.4", fnName(f)+": polling select "+selectDesc(s), in.Pos(), fnName(f), "has a ctx.Done() case",
						"a non-blocking receive without a ctx.Done() case takes a message whenever one is pending: while messages keep arriving the loop never looks at the stop request and shutdown does not finish")
				}
			}
		})
		if n == 0 {
			r.Unk("C09.4", fnName(f)+": blocking waits", f.Pos(), fnName(f), "no channel wait found in a pipeline function")
		}
	}

	// ---- C09.5 lock order and blocking under the registration lock
	r.Rule("C09.5", "lock order acyclic in station packages; nothing blocking reachable under RegisteredDecoys.m except the reviewed Redis publish", 5)
	stationFns := c.funcsOfPkgs("pkg/station/lib", "pkg/station/liveness", "cmd/application")
	sums := acquireSummaries(stationFns)
	edges := map[string]map[string]string{} // ownerA -> ownerB -> witness
	ownerOf := func(f *ssa.Function, lockKey string) string {
		i := strings.LastIndexByte(lockKey, '/')
		if o, ok := lockOwners[f.String()+"|"+lockKey[:i]]; ok {
			return o
		}
		return lockKey[:i]
	}
	ba := newBlockingAnalysis(c.P)
	for _, f := range stationFns {
		has := false
		eachInstr(f, func(in ssa.Instruction) {
			if ci, ok := in.(*ssa.Call); ok {
				if _, _, op := lockOp(&ci.Call); op == "lock" {
					has = true
				}
			}
		})
		if !has {
			continue
		}
		lf := analyseLocks(f, lockSet{})
		eachInstr(f, func(in ssa.Instruction) {
			call, ok := in.(*ssa.Call)
			if !ok {
				return
			}
			may := realLocks(lf.May[in])
			if len(may) == 0 {
				return
			}
			addEdge := func(to, wit string) {
				for k := range may {
					from := ownerOf(f, k)
					if from == to {
						continue
					}
					if edges[from] == nil {
						edges[from] = map[string]string{}
					}
					if _, ok := edges[from][to]; !ok {
						edges[from][to] = wit
					}
				}
			}
			if p, _, op := lockOp(&call.Call); op == "lock" {
				addEdge(ownerOf(f, p+"/W"), fnName(f))
				return
			} else if op != "" {
				return
			}
			var targets []*ssa.Function
			if cal := call.Call.StaticCallee(); cal != nil {
				targets = append(targets, cal)
			} else if _, tg := ba.dynFieldTargets(&call.Call); len(tg) > 0 {
				targets = append(targets, tg...)
			}
			for _, cal := range targets {
				for _, a := range sums[cal] {
					// owner of the callee-side lock
					o := lockOwners[lockOwnerFnKey(a, cal)]
					if o == "" {
						o = a.Path
					}
					addEdge(o, fnName(f)+" -> "+a.Via)
				}
			}
			// blocking reachability under the registration lock
			if _, under := holdsOwner(f, may, "lib.RegisteredDecoys.m", false); !under {
				return
			}
			name := calleeName(&call.Call)
			construct := fnName(f) + ": call " + shortName(pathOfCallee(&call.Call)) + " under RegisteredDecoys.m"
			if w, ok := blockingCallees[name]; ok {
				r.Bad("C09.5", construct, in.Pos(), fnName(f), "blocking operation ("+w+") while the registration lock is held stalls every connection handler and ingest worker")
				return
			}
			for _, cal := range targets {
				if bi := ba.blocks(cal); bi != nil {
					if strings.HasPrefix(bi.what, "redis publish") {
						r.OK("C09.5", construct+" (reviewed: Redis publish to the detector, by design inside the announce-once critical section)", in.Pos(), strings.Join(bi.via, " -> ")+": "+bi.what)
					} else {
						r.Bad("C09.5", construct+" reaches "+bi.what, in.Pos(), fnName(f),
							"a blocking operation is reachable while the registration lock is held: "+bi.what, bi.via...)
					}
					return
				}
			}
			if len(targets) > 0 {
				r.OK("C09.5", construct, in.Pos(), "no blocking primitive reachable through static repo callees")
			}
		})
	}
	// cycle detection on owner-level edges
	var nodes []string
	for a := range edges {
		nodes = append(nodes, a)
	}
	sort.Strings(nodes)
	color := map[string]int{}
	var cyc []string
	var dfs func(n string, stack []string)
	dfs = func(n string, stack []string) {
		color[n] = 1
		var outs []string
		for b := range edges[n] {
			outs = append(outs, b)
		}
		sort.Strings(outs)
		for _, b := range outs {
			if color[b] == 1 && cyc == nil {
				cyc = append(append([]string{}, stack...), n, b)
			} else if color[b] == 0 {
				dfs(b, append(stack, n))
			}
		}
		color[n] = 2
	}
	for _, n := range nodes {
		if color[n] == 0 {
			dfs(n, nil)
		}
	}
	var es []string
	for _, a := range nodes {
		for b, w := range edges[a] {
			es = append(es, a+" -> "+b+" ("+w+")")
		}
	}
	sort.Strings(es)
	if cyc != nil {
		r.Bad("C09.5", "lock-order cycle "+strings.Join(cyc, " -> "), token.NoPos, "", "two goroutines taking these mutexes in opposite orders deadlock", es...)
	} else {
		r.OK("C09.5", fmt.Sprintf("lock order acyclic (%d held->acquired edge(s))", len(es)), token.NoPos, strings.Join(es, "; "))
	}
}

func lockOwnerFnKey(a lockAcquire, cal *ssa.Function) string {
	return cal.String() + "|" + a.Path
}

func pathOfCallee(c *ssa.CallCommon) string {
	if n := calleeName(c); n != "" {
		return n
	}
	return pathOf(c.Value)
}

func selectDesc(s *ssa.Select) string {
	var parts []string
	for _, st := range s.States {
		if st.Dir == 2 {
			parts = append(parts, "<-"+pathOf(st.Chan))
		} else {
			parts = append(parts, pathOf(st.Chan)+"<-")
		}
	}
	return "[" + strings.Join(parts, ", ") + "]"
}

// withChanHelpers: f and the same-package functions it calls synchronously (two levels) that contain a channel
// operation - the loop of a pipeline stage may live in a helper.
func withChanHelpers(f *ssa.Function) []*ssa.Function {
	out := []*ssa.Function{f}
	seen := map[*ssa.Function]bool{f: true}
	var walk func(g *ssa.Function, d int)
	walk = func(g *ssa.Function, d int) {
		if d >= 2 {
			return
		}
		eachInstr(g, func(in ssa.Instruction) {
			call, ok := in.(*ssa.Call)
			if !ok {
				return
			}
			h := helperCallee(g, &call.Call)
			if h == nil || seen[h] {
				return
			}
			seen[h] = true
			hasChan := false
			eachInstr(h, func(in2 ssa.Instruction) {
				switch x := in2.(type) {
				case *ssa.Send, *ssa.Select:
					hasChan = true
				case *ssa.UnOp:
					if x.Op == token.ARROW {
						hasChan = true
					}
				}
			})
			if hasChan {
				out = append(out, h)
			}
			walk(h, d+1)
		})
	}
	walk(f, 0)
	return out
}

// fieldOwnerDeep: the owner of the field at the root of a map expression such as r.decoys[k] or r.decoys.
func fieldOwnerDeep(v ssa.Value) (string, string, bool) {
	for i := 0; i < 6 && v != nil; i++ {
		switch x := v.(type) {
		case *ssa.UnOp:
			if o, f, ok := fieldOwner(x.X); ok {
				return o, f, true
			}
			v = x.X
		case *ssa.Lookup:
			v = x.X
		case *ssa.Extract:
			v = x.Tuple
		default:
			return "", "", false
		}
	}
	return "", "", false
}

// checkTableDeletes (C09.14, C08.10): a tracked registration leaves the tables through the expiry sweep only.
func checkTableDeletes(c *Ctx, rule string) {
	r := c.R
	r.Rule(rule, "table entries are deleted by the sweep's removeRegistration only (or under a not-valid test)", 3)
	{
		n := 0
		for _, f := range c.funcsOfPkgs("pkg/station/lib") {
			eachInstr(f, func(in ssa.Instruction) {
				call, ok := in.(*ssa.Call)
				if !ok {
					return
				}
				b, isB := call.Call.Value.(*ssa.Builtin)
				if !isB || b.Name() != "delete" {
					return
				}
				mp := pathOf(call.Call.Args[0])
				if !strings.HasSuffix(mp, ".decoysTimeouts") && !strings.Contains(mp, ".decoys[") && !strings.HasSuffix(mp, ".decoys") {
					return
				}
				if o, _, ok := fieldOwnerDeep(call.Call.Args[0]); ok && o != "lib.RegisteredDecoys" {
					return
				}
				n++
				okk := f.Name() == "removeRegistration" || onlyCalledFrom(f, "removeRegistration", 2) || onlyCalledFrom(f, "removeOldRegistrations", 2)
				how := "in the sweep"
				if !okk {
					okk = guardedM(f, in, func(cnd string, pol bool) bool { return strings.HasSuffix(cnd, ".Valid") && !pol })
					how = "under a not-valid test"
				}
				r.Check(okk, rule, fnName(f)+": delete from "+firstN(mp, 40)+" belongs to the expiry sweep", in.Pos(), fnName(f), how,
					"an entry is deleted from the registration table outside the expiry sweep and without testing that it is not valid: a duplicate delivery that has meanwhile validated and announced the same entry loses it - an interleaving with no serial equivalent (announced, counted active, but not tracked)")
			})
		}
		if n == 0 {
			r.Unk(rule, "deletes from the registration table", token.NoPos, "", "none found")
		}
	}

}

// checkLRUNotUnderLock (C09.17, C11.13)
func checkLRUNotUnderLock(c *Ctx, rule string) {
	r := c.R
	r.Rule(rule, "the liveness LRU is never called while the cache mutex may be held (its eviction callback takes it)", 3)
	{
		n := 0
		for _, f := range c.funcsOfPkgs("pkg/station/liveness") {
			if f.Blocks == nil || f.Signature.Recv() == nil || !strings.HasSuffix(typeShort(f.Signature.Recv().Type()), "liveness.lruCache") {
				continue
			}
			lf := analyseLocks(f, lockSet{})
			eachInstr(f, func(in ssa.Instruction) {
				call, ok := in.(*ssa.Call)
				if !ok {
					return
				}
				name := calleeName(&call.Call)
				if !strings.Contains(name, "golang-lru") {
					return
				}
				switch calleeShort(&call.Call) {
				case "Add", "Remove", "Resize", "RemoveOldest", "Purge", "ContainsOrAdd", "PeekOrAdd":
				default:
					return // Get / Contains / Len / Keys do not evict
				}
				n++
				held := ""
				for k := range realLocks(lf.May[in]) {
					if strings.Contains(k, ".m/") {
						held = k
					}
				}
				r.Check(held == "", rule, fnName(f)+": "+shortName(name)+" with the cache mutex released", in.Pos(), fnName(f), "no lock of the cache in the may-held set",
					"the LRU is modified while "+held+" is held: when the call evicts an entry the library runs the eviction callback, which takes the cache's write lock - the caller deadlocks on its own lock, the waiting writer blocks every later reader, and every ingest worker hangs in the liveness probe")
			})
		}
		if n == 0 {
			r.Unk(rule, "calls into the LRU library", token.NoPos, "", "none found in the methods of lruCache")
		}
	}
}
