package main

import (
	"fmt"
	"go/constant"
	"go/token"
	"go/types"
	"sort"
	"strconv"
	"strings"

	"golang.org/x/tools/go/ssa"
)

func init() {
	register("C15", &propCheck{Run: checkC15,
		Explain: "C15.1 every narrowing integer conversion (to uint8/uint16) in the registration-channel encoders is value-preserving: masked/shifted extraction, dominated by an upper bound, or followed by the round-trip test with a failing edge that leaves the function — so an encoder rejects what it cannot represent instead of truncating a length; " +
			"C15.2 sibling agreement: each obfuscator's Obfuscate and TryReveal slice the shared-secret hash at identical constant bounds, the representative masks are complementary on the same byte, the header split is 32 on both sides; the one- and two-byte length prefixes are read back at the width they were written; " +
			"C15.3 each randomised Obfuscate fills its ephemeral secret from crypto/rand on every path to its use; " +
			"C15.8 TryReveal (and the package helpers it hands the ciphertext to) never writes into its ciphertext argument: no store, copy, append to a re-slice, or crypto destination (AEAD.Open/Seal dst, XORKeyStream dst) that is input storage; " +
			"C15.9 every function of the DNS registrar that parses a reader with binary.Read / io.ReadFull reads all its sized fields that way (no single Read on the same reader); " +
			"C15.4 every dns.Name placed in a Question/RR by requester/responder comes from NewName/ParseName, a parsed message or the empty name. " +
			"Decides representability and layout agreement structurally; the round trips themselves for all payloads/keys and the Noise exchange are not decided.",
		Assume: []string{"crypto and encoding libraries behave as documented", "XORObfuscator's empty-payload asymmetry is a value-level case outside these rules (DESIGN section 6)"}})
}

func checkC15(c *Ctx) {
	r := c.R
	dnsPkgs := []string{"pkg/registrars/dns-registrar/msgformat", "pkg/registrars/dns-registrar/dns", "pkg/registrars/dns-registrar/requester", "pkg/registrars/dns-registrar/responder", "pkg/registrars/dns-registrar/encryption", "pkg/transports"}

	// ---- C15.1
	r.Rule("C15.1", "no silent truncation in an encoder: narrowing conversions are bounded, masked or round-trip checked", 6)
	for _, f := range c.funcsOfPkgs(dnsPkgs...) {
		if fnPkgPath(f) == repoMod+"/pkg/transports" {
			// only the encoders of this package are in scope (obfuscate.go, anypb_nourl.go); the seeded port draw is C01/C14
			file := r.posStr(f.Pos())
			if !strings.Contains(file, "obfuscate.go") && !strings.Contains(file, "anypb_nourl.go") {
				continue
			}
		}
		for _, s := range narrowSites(f) {
			if s.OK {
				r.OK("C15.1", s.construct(), s.Conv.Pos(), s.How)
			} else {
				r.Bad("C15.1", s.construct()+" unchecked", s.Conv.Pos(), fnName(f),
					"the value "+firstN(s.Operand, 60)+" is converted to "+typeShort(s.Conv.Type())+" without a bound, mask or round-trip test: a value that does not fit is silently altered (e.g. a 256-byte message gets length prefix 0 and decodes to an empty message) instead of being rejected")
			}
		}
	}

	// ---- C15.2 sibling constants
	r.Rule("C15.2", "encoder/decoder siblings use the same layout constants", 6)
	for _, typ := range []string{"GCMObfuscator", "CTRObfuscator"} {
		ob := c.fn("C15.2", "pkg/transports", typ, "Obfuscate")
		tr := c.fn("C15.2", "pkg/transports", typ, "TryReveal")
		if ob == nil || tr == nil {
			continue
		}
		hs := func(f *ssa.Function) []string {
			// slices of the sha256.Sum256 result (stored in a local array) with constant bounds
			set := map[string]bool{}
			eachInstrDeep(f, 2, func(in ssa.Instruction, _ deepCtx) {
				sl, ok := in.(*ssa.Slice)
				if !ok {
					return
				}
				if !hashDerived(sl.X, 0) {
					return
				}
				lo, hi := "0", "len"
				if sl.Low != nil {
					if cv, ok := constOf(sl.Low); ok {
						lo = cv.String()
					} else {
						lo = "?"
					}
				}
				if sl.High != nil {
					if cv, ok := constOf(sl.High); ok {
						hi = cv.String()
					} else {
						hi = "?"
					}
				}
				set[lo+":"+hi] = true
			})
			var out []string
			for k := range set {
				out = append(out, k)
			}
			sort.Strings(out)
			return out
		}
		a, b := hs(ob), hs(tr)
		r.Check(len(a) >= 2 && strings.Join(a, ",") == strings.Join(b, ","), "C15.2", typ+": key/IV slices of the shared-secret hash agree", ob.Pos(), fnName(ob), fmt.Sprintf("Obfuscate %v == TryReveal %v", a, b),
			fmt.Sprintf("Obfuscate slices the hash at %v but TryReveal at %v: the station derives a different key/IV than the client and no tag ever decrypts", a, b))
		// masks on representative[31]
		mask := func(f *ssa.Function, op token.Token) (idx string, k string) {
			eachInstrDeep(f, 2, func(in ssa.Instruction, _ deepCtx) {
				st, ok := in.(*ssa.Store)
				if !ok {
					return
				}
				ia, ok := st.Addr.(*ssa.IndexAddr)
				if !ok || !isRepresentative(ia.X) {
					return
				}
				bo, ok := st.Val.(*ssa.BinOp)
				if !ok || bo.Op != op {
					return
				}
				if cv, ok := constOf(ia.Index); ok {
					idx = cv.String()
				}
				// AND: const directly; OR: (const & rand)
				for _, side := range []ssa.Value{bo.X, bo.Y} {
					if cv, ok := constOf(side); ok {
						k = cv.String()
					}
					if b2, ok := side.(*ssa.BinOp); ok && b2.Op == token.AND {
						for _, s2 := range []ssa.Value{b2.X, b2.Y} {
							if cv, ok := constOf(s2); ok {
								k = cv.String()
							}
						}
					}
				}
			})
			return
		}
		i1, k1 := mask(ob, token.OR)
		i2, k2 := mask(tr, token.AND)
		okMask := false
		if k1 != "" && k2 != "" {
			v1, _ := constant.Uint64Val(constant.MakeFromLiteral(k1, token.INT, 0))
			v2, _ := constant.Uint64Val(constant.MakeFromLiteral(k2, token.INT, 0))
			okMask = i1 == i2 && v1^v2 == 0xff && v1&v2 == 0
		}
		r.Check(okMask, "C15.2", typ+": representative masks are complementary on the same byte", tr.Pos(), fnName(tr), fmt.Sprintf("set [%s]|=%s&rnd, clear [%s]&=%s", i1, k1, i2, k2),
			fmt.Sprintf("Obfuscate randomises bits %s of byte %s but TryReveal clears %s of byte %s: the revealed representative differs from the one the client generated", k1, i1, k2, i2))
		// header split at 32
		splits := map[string]bool{}
		eachInstrDeep(tr, 2, func(in ssa.Instruction, d deepCtx) {
			if sl, ok := in.(*ssa.Slice); ok && d.toRoot(pathOf(sl.X)) == P(tr, 1) {
				if sl.Low != nil {
					if cv, ok := constOf(sl.Low); ok {
						splits["lo"+cv.String()] = true
					}
				}
				if sl.High != nil {
					if cv, ok := constOf(sl.High); ok {
						splits["hi"+cv.String()] = true
					}
				}
			}
		})
		r.Check(len(splits) == 2 && splits["lo32"] && splits["hi32"], "C15.2", typ+".TryReveal: header is the first 32 bytes, payload the rest", tr.Pos(), fnName(tr), fmt.Sprint(keysOf(splits)),
			"TryReveal does not split the tag at byte 32 (the length of the representative Obfuscate writes first): key material and ciphertext are misaligned")
	}
	// msgformat widths
	type mf struct {
		add, rem string
		width    int64
	}
	for _, m := range []mf{{"AddRequestFormat", "RemoveRequestFormat", 1}, {"AddResponseFormat", "RemoveResponseFormat", 2}} {
		rem := c.fn("C15.2", "pkg/registrars/dns-registrar/msgformat", "", m.rem)
		add := c.fn("C15.2", "pkg/registrars/dns-registrar/msgformat", "", m.add)
		if rem == nil || add == nil {
			continue
		}
		okW := false
		eachInstr(rem, func(in ssa.Instruction) {
			if ret, ok := in.(*ssa.Return); ok && len(ret.Results) == 2 {
				if sl, ok := ret.Results[0].(*ssa.Slice); ok && sl.Low != nil {
					if cv, ok := constOf(sl.Low); ok && cv.String() == fmt.Sprint(m.width) && strings.HasPrefix(pathOf(sl.High), fmt.Sprintf("(%d + ", m.width)) {
						okW = true
					}
				}
			}
		})
		// the prefix the encoder prepends has the same width
		wAdd := int64(-1)
		eachInstr(add, func(in ssa.Instruction) {
			switch x := in.(type) {
			case *ssa.Alloc:
				if strings.HasPrefix(typeShort(x.Type()), "*[1]uint8") || strings.HasPrefix(typeShort(x.Type()), "*[1]byte") {
					wAdd = 1
				}
				if strings.HasPrefix(typeShort(x.Type()), "*[2]uint8") || strings.HasPrefix(typeShort(x.Type()), "*[2]byte") {
					wAdd = 2
				}
			case *ssa.MakeSlice:
				if cv, ok := constOf(x.Len); ok {
					if v, ok := constant.Int64Val(cv); ok {
						wAdd = v
					}
				}
			}
		})
		r.Check(okW && wAdd == m.width, "C15.2", fmt.Sprintf("msgformat: %s/%s use a %d-byte prefix on both sides", m.add, m.rem, m.width), rem.Pos(), fnName(rem), fmt.Sprintf("encoder prefix %d byte(s); decoder returns p[%d:%d+length]", wAdd, m.width, m.width),
			"the decoder does not skip/measure the prefix at the width the encoder writes: the payload is shifted or cut")
	}

	// ---- C15.8 a reveal attempt leaves the wire bytes as they were: the station tries every key on the same bytes
	r.Rule("C15.8", "TryReveal never writes into its ciphertext argument", 4)
	for _, typ := range []string{"GCMObfuscator", "CTRObfuscator", "XORObfuscator", "NilObfuscator"} {
		f := c.fn("C15.8", "pkg/transports", typ, "TryReveal")
		if f == nil {
			continue
		}
		bad := false
		scope := []*ssa.Function{f}
		// helpers of the package that are handed (part of) the ciphertext
		eachInstr(f, func(in ssa.Instruction) {
			if ci, ok := in.(ssa.CallInstruction); ok {
				if h := helperCallee(f, ci.Common()); h != nil {
					for _, a := range ci.Common().Args {
						if inputDerived(a, 0, map[ssa.Value]bool{}) {
							scope = append(scope, h)
							break
						}
					}
				}
			}
		})
		for _, g := range scope {
			eachInstr(g, func(in ssa.Instruction) {
				if why := writesInput(g, in); why != "" {
					bad = true
					r.Bad("C15.8", typ+".TryReveal: "+fnName(g)+" writes into its input", in.Pos(), fnName(g),
						why+": the caller offers the same wire bytes to the next station key (and keeps them for the other transports), so after one refused key the matching key no longer reveals the tag")
				}
			})
		}
		if !bad {
			r.OK("C15.8", typ+".TryReveal: the ciphertext is only read", f.Pos(), fmt.Sprintf("%d function(s) scanned for stores, copy, append-to-reslice and crypto destination arguments", len(scope)))
		}
	}

	// ---- C15.9 a length-delimited field is read whole: a reader that is parsed with fixed-size reads (binary.Read,
	// io.ReadFull) is never asked for a field with one plain Read, which may return fewer bytes than the field has
	r.Rule("C15.9", "length-delimited fields are read with a filling read, never a single Read", 3)
	{
		unwrap := func(v ssa.Value) ssa.Value {
			for {
				switch x := v.(type) {
				case *ssa.MakeInterface:
					v = x.X
					continue
				case *ssa.ChangeInterface:
					v = x.X
					continue
				}
				return v
			}
		}
		nFraming := 0
		for _, f := range c.funcsOfPkgs(dnsPkgs...) {
			framed := map[ssa.Value]bool{}
			eachInstr(f, func(in ssa.Instruction) {
				if ci, ok := in.(ssa.CallInstruction); ok {
					switch calleeName(ci.Common()) {
					case "encoding/binary.Read", "io.ReadFull", "io.ReadAtLeast":
						rd := unwrap(ci.Common().Args[0])
						if _, isGlobal := rd.(*ssa.UnOp); isGlobal && strings.Contains(pathOf(rd), "rand.Reader") {
							return
						}
						framed[rd] = true
					}
				}
			})
			if len(framed) == 0 {
				continue
			}
			nFraming++
			bad := false
			eachInstr(f, func(in ssa.Instruction) {
				ci, ok := in.(ssa.CallInstruction)
				if !ok {
					return
				}
				cc := ci.Common()
				var recv ssa.Value
				if cc.IsInvoke() && cc.Method.Name() == "Read" {
					recv = cc.Value
				} else if cal := cc.StaticCallee(); cal != nil && cal.Name() == "Read" && cal.Signature.Recv() != nil && len(cc.Args) == 2 {
					recv = cc.Args[0]
				}
				if recv == nil || !framed[unwrap(recv)] {
					return
				}
				bad = true
				r.Bad("C15.9", fnName(f)+": field read with a single Read from "+firstN(pathOf(recv), 40), in.Pos(), fnName(f),
					"the reader is parsed as a sequence of sized fields, but this field is requested with one Read call, which returns what has arrived so far: a message delivered in pieces is cut short and the rest is parsed as the next length prefix")
			})
			if !bad {
				r.OK("C15.9", fnName(f)+": sized fields are read with binary.Read / io.ReadFull only", f.Pos(), fmt.Sprintf("%d framed reader(s)", len(framed)))
			}
		}
		if nFraming == 0 {
			r.Unk("C15.9", "framing readers", token.NoPos, "", "no function that parses a stream with binary.Read / io.ReadFull found")
		}
	}

	// ---- C15.10 the message decoder refuses a message only where reading a field failed: whatever the encoder wrote can
	// be read back, so a refusal that is computed from the header counts (a minimum-size estimate, a limit) is a
	// refusal of messages the encoder produces
	r.Rule("C15.10", "readMessage fails only with the error of a field read", 3)
	if f := c.fn("C15.10", "pkg/registrars/dns-registrar/dns", "", "readMessage"); f != nil {
		n := 0
		var fromCall func(v ssa.Value, d int) bool
		fromCall = func(v ssa.Value, d int) bool {
			if d > 4 {
				return false
			}
			switch x := v.(type) {
			case *ssa.Extract:
				_, ok := x.Tuple.(*ssa.Call)
				return ok
			case *ssa.Call:
				return true
			case *ssa.Phi:
				for _, e := range x.Edges {
					if !fromCall(e, d+1) {
						return false
					}
				}
				return len(x.Edges) > 0
			}
			return false
		}
		eachInstr(f, func(in ssa.Instruction) {
			ret, ok := in.(*ssa.Return)
			if !ok || len(ret.Results) != 2 || ret.Block().Comment == "recover" {
				return
			}
			ev := returnedValue(ret, 1, nil)
			if k, isC := ev.(*ssa.Const); isC && k.Value == nil {
				return
			}
			n++
			r.Check(fromCall(ev, 0), "C15.10", fmt.Sprintf("readMessage: error return #%d hands on the error of a read", n), ret.Pos(), fnName(f), firstN(pathOf(ev), 60),
				"readMessage refuses a message with "+firstN(pathOf(ev), 60)+", an error of its own making rather than the error of a field read: a check computed from the header (minimum sizes, limits) refuses well-formed messages the encoder produces (an OPT record with the one-octet root name is 11 octets)")
		})
		if n == 0 {
			r.Unk("C15.10", "readMessage: error returns", f.Pos(), fnName(f), "none found")
		}
	}

	// ---- C15.11 the encoder compresses names only as deeply as the decoder follows: every compression pointer the
	// encoder emits is written under a bound on the length of the pointer chain, and that bound is within the decoder's
	// compressionPointerLimit
	// ---- C15.12 the encrypted exchange: a Noise cipher state counts its messages (the nonce); the responder answers every
	// request at nonce 0, so a request decodes only with the cipher states of the handshake made for it. They live for
	// one exchange: returned and used, never kept in a field, a map or a package variable and handed out again.
	r.Rule("C15.12", "Noise cipher states are per exchange: never stored in a field, map or global", 1)
	{
		nFn, nBad := 0, 0
		for _, f := range c.funcsOfPkgs("pkg/registrars/dns-registrar/requester", "pkg/registrars/dns-registrar/responder", "pkg/registrars/dns-registrar/encryption") {
			for _, ff := range withAnon(f) {
				uses := false
				eachInstr(ff, func(in ssa.Instruction) {
					if v, ok := in.(ssa.Value); ok && strings.HasSuffix(typeShort(v.Type()), "noise.CipherState") {
						uses = true
					}
					var val, addr ssa.Value
					switch x := in.(type) {
					case *ssa.Store:
						val, addr = x.Val, x.Addr
					case *ssa.MapUpdate:
						val, addr = x.Value, x.Map
					default:
						return
					}
					if !strings.HasSuffix(typeShort(val.Type()), "noise.CipherState") {
						return
					}
					if al, isA := addr.(*ssa.Alloc); isA && !al.Heap {
						return
					}
					if al, isA := addr.(*ssa.Alloc); isA && al.Heap {
						// a captured local: fine as long as it is a local of this call
						return
					}
					root := addr
					for i := 0; i < 6; i++ {
						if fa, ok := root.(*ssa.FieldAddr); ok {
							root = fa.X
							continue
						}
						break
					}
					if _, isA := root.(*ssa.Alloc); isA {
						return // a field of a local of this call
					}
					nBad++
					r.Bad("C15.12", fnName(ff)+": stores a Noise cipher state into "+firstN(pathOf(addr), 50), in.Pos(), fnName(ff),
						"a cipher state is kept beyond its exchange: when it is handed out again its nonce has moved on, the peer (which starts every exchange at nonce 0) is answered with, or decoded by, the wrong nonce, and a request the encoder accepted fails to decode")
				})
				if uses {
					nFn++
				}
			}
		}
		if nBad == 0 {
			if nFn == 0 {
				r.Unk("C15.12", "users of noise.CipherState", token.NoPos, "", "no function of the DNS registrar handles a Noise cipher state")
			} else {
				r.OK("C15.12", "no Noise cipher state is stored beyond its exchange", token.NoPos, fmt.Sprintf("%d function(s) handle cipher states; none stores one into a field, map or global", nFn))
			}
		}
	}

	// ---- C15.13 what the responder says is what the requester hears: every DNS response that parses is handed to the
	// waiting reader, whatever its payload - the empty answer the responder sends for a result it cannot fit is how
	// "cannot be represented" reaches the caller as an error (dropped, the caller waits forever)
	r.Rule("C15.13", "the requester's receive loop queues the payload of every response that parses", 1)
	if f := c.fn("C15.13", "pkg/registrars/dns-registrar/requester", "DNSPacketConn", "recvLoop"); f != nil {
		var extract, read *ssa.Call
		var queue []ssa.Instruction
		eachInstr(f, func(in ssa.Instruction) {
			call, ok := in.(*ssa.Call)
			if !ok {
				return
			}
			switch {
			case calleeShort(&call.Call) == "dnsResponsePayload":
				extract = call
			case calleeShort(&call.Call) == "QueueIncoming":
				queue = append(queue, in)
			case call.Call.IsInvoke() && (call.Call.Method.Name() == "Read" || call.Call.Method.Name() == "ReadFrom"):
				read = call
			}
		})
		if extract == nil || read == nil || len(queue) == 0 {
			r.Unk("C15.13", "recvLoop: read / payload extraction / queue", f.Pos(), fnName(f), "the receive loop was not recognised (Read, dnsResponsePayload, QueueIncoming)")
		} else {
			set := map[ssa.Instruction]bool{}
			for _, q := range queue {
				set[q] = true
			}
			skip, w := reach(f, extract, func(in ssa.Instruction) bool { return in == ssa.Instruction(read) || isReturn(in) }, inSet(set), nil)
			if skip {
				r.Bad("C15.13", "recvLoop: every parsed response is queued", extract.Pos(), fnName(f),
					"after the payload of a response was extracted the loop can go on to the next read without queueing it: the responder's empty 'result does not fit' answer (its payload decodes to nil) never reaches the caller, which then waits forever instead of getting an error", r.blockPath(f, w)...)
			} else {
				r.OK("C15.13", "recvLoop: every parsed response is queued", extract.Pos(), "no path from dnsResponsePayload to the next Read avoids QueueIncoming")
			}
		}
	}

	// ---- C15.14 name packing: the label list built from a payload never contains an empty label (NewName refuses it - in
	// the background sender, after the request was accepted: the query is never sent and the caller waits forever).
	// In chunks() a remainder is appended only under a test that it is not empty.
	r.Rule("C15.14", "chunks() appends a remainder only when it is not empty", 1)
	if f := c.fn("C15.14", "pkg/registrars/dns-registrar/requester", "", "chunks"); f != nil {
		n := 0
		eachInstr(f, func(in ssa.Instruction) {
			call, ok := in.(*ssa.Call)
			if !ok {
				return
			}
			b, isB := call.Call.Value.(*ssa.Builtin)
			if !isB || b.Name() != "append" || len(call.Call.Args) != 2 {
				return
			}
			n++
			// the appended element(s)
			full := true
			if el, ok := varargElems(call.Call.Args[1]); ok {
				for _, e := range el {
					if sl, isSl := e.(*ssa.Slice); !isSl || sl.High == nil {
						full = false
					}
				}
			} else {
				full = false
			}
			g := guardedM(f, in, func(cnd string, pol bool) bool {
				return (pol && strings.HasPrefix(cnd, "(0 < len(")) || (!pol && strings.HasPrefix(cnd, "(0 == len(")) || (!pol && strings.HasPrefix(cnd, "(len(") && strings.HasSuffix(cnd, " < 1)"))
			})
			r.Check(g || (full && guardedM(f, in, func(cnd string, pol bool) bool { return strings.Contains(cnd, "len(") })), "C15.14", "chunks: appended under a non-empty test", call.Pos(), fnName(f), "dominated by len(p) > 0",
				"a chunk is appended without a test that it is not empty: when the encoded text is an exact multiple of the label size the list ends in a zero-length label, the name is refused in the background sender and the request - already accepted - is never sent")
		})
		if n == 0 {
			r.Unk("C15.14", "chunks: append", f.Pos(), fnName(f), "not found")
		}
	}

	// ---- C15.15 the decoder accepts the shortest thing the encoder produces: Obfuscate accepts the empty tag and emits
	// representative (32) [+ GCM tag (16)] bytes for it, so TryReveal's minimum length is exactly 32 + 16 = 48 (GCM) and
	// 32 (CTR) - by value, however the constants are spelt
	r.Rule("C15.15", "TryReveal's minimum length is the length of the encoding of the empty tag (48 GCM, 32 CTR)", 2)
	for typ, want := range map[string]string{"GCMObfuscator": "48", "CTRObfuscator": "32"} {
		f := c.fn("C15.15", "pkg/transports", typ, "TryReveal")
		if f == nil {
			continue
		}
		found := ""
		var pos token.Pos = f.Pos()
		eachInstr(f, func(in ssa.Instruction) {
			iff, ok := in.(*ssa.If)
			if !ok {
				return
			}
			bo, ok := iff.Cond.(*ssa.BinOp)
			if !ok {
				return
			}
			for _, pr := range [][2]ssa.Value{{bo.X, bo.Y}, {bo.Y, bo.X}} {
				lc, isCall := pr[0].(*ssa.Call)
				if !isCall {
					continue
				}
				if bi, isB := lc.Call.Value.(*ssa.Builtin); !isB || bi.Name() != "len" || len(lc.Call.Args) != 1 {
					continue
				}
				if prm, isP := lc.Call.Args[0].(*ssa.Parameter); !isP || prm != f.Params[len(f.Params)-2] {
					continue
				}
				if cv, isC := constOf(pr[1]); isC && found == "" {
					k, _ := constant.Int64Val(constant.ToInt(cv))
					// len < K (reject) or K <= len forms: normalise to the smallest accepted length
					switch {
					case bo.Op == token.LSS && pr[0] == bo.X, bo.Op == token.GTR && pr[0] == bo.Y, bo.Op == token.GEQ && pr[0] == bo.X, bo.Op == token.LEQ && pr[0] == bo.Y:
						found = fmt.Sprint(k)
					case bo.Op == token.LEQ && pr[0] == bo.X, bo.Op == token.GEQ && pr[0] == bo.Y, bo.Op == token.GTR && pr[0] == bo.X, bo.Op == token.LSS && pr[0] == bo.Y:
						found = fmt.Sprint(k + 1)
					}
					pos = iff.Pos()
				}
			}
		})
		if found == "" {
			r.Unk("C15.15", typ+".TryReveal: minimum length test", f.Pos(), fnName(f), "no comparison of len(ciphertext) with a constant found")
			continue
		}
		r.Check(found == want, "C15.15", typ+".TryReveal: shortest accepted encoding is "+want+" bytes", pos, fnName(f), "len(ciphertext) compared with "+found,
			"TryReveal refuses encodings shorter than "+found+" bytes, but Obfuscate's encoding of the empty tag is "+want+" bytes: a value the encoder accepts is not decoded")
	}

	// ---- C15.16 the DNS decoder reports what is on the wire: the fields of a decoded question / record / message are
	// filled from the stream only - no constant is written over a decoded field (a "normalisation" in the parser makes
	// decode(encode(m)) differ from m without an error; such rules belong to the consumer of the message)
	r.Rule("C15.16", "the DNS decoders store no constant into a decoded field", 3)
	for _, nm := range []string{"readRR", "readQuestion", "readMessage"} {
		f := c.fn("C15.16", "pkg/registrars/dns-registrar/dns", "", nm)
		if f == nil {
			continue
		}
		var bad []string
		pos := f.Pos()
		eachInstr(f, func(in ssa.Instruction) {
			st, ok := in.(*ssa.Store)
			if !ok {
				return
			}
			o, fld, ok := fieldOwner(st.Addr)
			if !ok || (o != "dns.RR" && o != "dns.Question" && o != "dns.Message") {
				return
			}
			if cst, isC := stripConv(st.Val).(*ssa.Const); isC && cst.Value != nil {
				bad = append(bad, o+"."+fld+" = "+cst.Value.ExactString())
				pos = in.Pos()
			}
		})
		r.Check(len(bad) == 0, "C15.16", nm+": decoded fields come from the stream", pos, fnName(f), "no constant is stored into a field of the decoded value",
			"the decoder overwrites a decoded field with a constant ("+strings.Join(bad, ", ")+"): a message that carries another value there is encoded as given and decoded as something else, silently")
	}

	r.Rule("C15.11", "the encoder's compression-pointer chains stay within the decoder's pointer limit", 1)
	if f := c.fn("C15.11", "pkg/registrars/dns-registrar/dns", "messageBuilder", "WriteName"); f != nil {
		limit := constIntOf(c.P, repoMod+"/pkg/registrars/dns-registrar/dns", "compressionPointerLimit")
		n := 0
		eachInstr(f, func(in ssa.Instruction) {
			call, ok := in.(*ssa.Call)
			if !ok || calleeName(&call.Call) != "encoding/binary.Write" || !strings.Contains(pathOf(call.Call.Args[2]), "49152") {
				return
			}
			n++
			bound := int64(-1)
			g := guardedM(f, in, func(cnd string, pol bool) bool {
				l, rr, ok := splitLt(cnd)
				if !ok || !pol {
					return false
				}
				if k, err := strconv.ParseInt(rr, 10, 64); err == nil && !strings.Contains(l, "len(") && !strings.Contains(l, "16383") {
					bound = k
					return true
				}
				return false
			})
			okk := g && limit != "" && fmt.Sprint(bound) <= limit && len(fmt.Sprint(bound)) <= len(limit)
			if g && limit != "" {
				if lv, err := strconv.ParseInt(limit, 10, 64); err == nil {
					okk = bound <= lv
				}
			}
			r.Check(okk, "C15.11", "WriteName: a compression pointer is written only while the chain stays within the decoder's limit", in.Pos(), fnName(f), fmt.Sprintf("guarded by depth < %d; decoder limit %s", bound, limit),
				"the encoder points at any earlier suffix, however many pointers that suffix already ends in; the decoder follows at most "+limit+" pointers per name (compressionPointerLimit): a message whose names each extend the previous one by a label (x1, x2.x1, x3.x2.x1, …, 12 of them) is encoded without error and refused by the decoder with ErrTooManyPointers")
		})
		if n == 0 {
			r.Unk("C15.11", "WriteName: compression pointer", f.Pos(), fnName(f), "no binary.Write of 0xc000|ptr found")
		}
		// the bound is only as good as the bookkeeping: when a name ends in a pointer, EVERY suffix of it that was written
		// verbatim (and cached as a pointer target) now ends in one more pointer - the depth is recorded in a loop over
		// those suffixes, not for the whole name only
		nUpd := 0
		eachInstr(f, func(in ssa.Instruction) {
			mu, ok := in.(*ssa.MapUpdate)
			if !ok || !strings.HasSuffix(pathOf(mu.Map), ".nameDepth") {
				return
			}
			nUpd++
			again, _ := reach(f, in, isInstr(in), nil, nil)
			r.Check(again, "C15.11", "WriteName: the pointer depth is recorded for every suffix written verbatim", in.Pos(), fnName(f), "the update sits in a loop over the verbatim suffixes",
				"the chain length is recorded for one name only: the inner suffixes that were just written (and cached as pointer targets) keep depth 0 although they end in a pointer chain, so a later name pointing at one of them exceeds the decoder's limit - the message is encoded without error and refused with ErrTooManyPointers")
		})
		if nUpd == 0 {
			r.Unk("C15.11", "WriteName: depth bookkeeping", f.Pos(), fnName(f), "no update of nameDepth found")
		}
	}

	// ---- C15.3 freshness
	r.Rule("C15.3", "randomised obfuscators draw fresh randomness before use", 3)
	for _, typ := range []string{"GCMObfuscator", "CTRObfuscator", "XORObfuscator"} {
		f := c.fn("C15.3", "pkg/transports", typ, "Obfuscate")
		if f == nil {
			continue
		}
		// the key generation may sit in a helper of the package that Obfuscate calls (both tag obfuscators share it)
		var viaHelper ssa.Instruction
		top := f
		if typ != "XORObfuscator" && len(callsIn(f, shortIs("ScalarBaseMult"))) == 0 {
			if l, ok := findOneDeep(f, shortIs("ScalarBaseMult")); ok {
				f = l.in
				viaHelper = l.site()
			}
		}
		reads := callsIn(f, nameIs("crypto/rand.Read"))
		if len(reads) == 0 {
			r.Bad("C15.3", typ+".Obfuscate: no crypto/rand.Read", f.Pos(), fnName(f), "the obfuscator draws no fresh randomness: every encoding of a tag is identical and linkable")
			continue
		}
		if typ == "XORObfuscator" {
			// the pad XORed with the plaintext is the buffer filled by rand.Read
			rd := reads[0].(*ssa.Call)
			okX := false
			eachInstr(f, func(in ssa.Instruction) {
				if bo, ok := in.(*ssa.BinOp); ok && bo.Op == token.XOR {
					if dependsOnBuffer(bo, rd.Call.Args[0]) {
						okX = true
					}
				}
			})
			r.Check(okX, "C15.3", typ+".Obfuscate: pad comes from crypto/rand", rd.Pos(), fnName(f), "XOR operand loaded from the buffer filled by rand.Read", "the XOR pad is not the buffer filled from crypto/rand")
			continue
		}
		// ephemeral key: the array handed to ScalarBaseMult as private key is filled by rand.Read on every path to that call
		var sbm *ssa.Call
		for _, ci := range callsIn(f, shortIs("ScalarBaseMult")) {
			sbm = ci.(*ssa.Call)
		}
		if sbm == nil {
			r.Unk("C15.3", typ+".Obfuscate: ScalarBaseMult", f.Pos(), fnName(f), "ephemeral key generation not found")
			continue
		}
		priv := sbm.Call.Args[2]
		isFill := func(in ssa.Instruction) bool {
			call, ok := in.(*ssa.Call)
			if !ok || calleeName(&call.Call) != "crypto/rand.Read" {
				return false
			}
			// argument is a slice of the private-key array
			v := call.Call.Args[0]
			for i := 0; i < 4; i++ {
				if sl, ok := v.(*ssa.Slice); ok {
					return sl.X == priv
				}
				if u, ok := v.(*ssa.UnOp); ok {
					// load of a local holding the slice
					if a, ok := u.X.(*ssa.Alloc); ok {
						for _, ref := range *a.Referrers() {
							if st, ok := ref.(*ssa.Store); ok && st.Addr == ssa.Value(a) {
								v = st.Val
							}
						}
						continue
					}
				}
				break
			}
			return false
		}
		// every path from entry AND from the previous ScalarBaseMult (retry) to ScalarBaseMult passes a fill
		stale1, _ := reach(f, nil, isInstr(sbm), isFill, nil)
		stale2, _ := reach(f, sbm, isInstr(sbm), isFill, nil)
		// ... and the representative is used only when ScalarBaseMult said it exists: once the edges on which its
		// result is true are removed, no successful return is reachable from the call without another attempt
		okEdges := edgesEstablishing(f, func(cond string, pol bool) bool { return pol && cond == pathOf(sbm) })
		isOKReturn := func(in ssa.Instruction) bool {
			ret, ok := in.(*ssa.Return)
			if !ok || len(ret.Results) == 0 {
				return false
			}
			last := len(ret.Results) - 1
			if !types.Identical(ret.Results[last].Type(), types.Universe.Lookup("error").Type()) {
				return true
			}
			cst, isC := returnedValue(ret, last, nil).(*ssa.Const)
			return isC && cst.Value == nil
		}
		if unrep, w := reachPS(f, sbm, isOKReturn, isInstr(sbm), okEdges); unrep {
			r.Bad("C15.3", typ+".Obfuscate: the key search ends only with a key that has a representative", sbm.Pos(), fnName(f),
				"a successful return is reachable after ScalarBaseMult reported that the key has no Elligator representative: the tag is sent with a stale or zero representative, which the station cannot map back to the client's key - the encoding is not invertible", r.blockPath(f, w)...)
		} else {
			r.OK("C15.3", typ+".Obfuscate: the key search ends only with a key that has a representative", sbm.Pos(), "no successful return reachable from ScalarBaseMult == false without another attempt")
		}
		// ... and every encoding has a key of its own: no successful return of the key generation (or of Obfuscate around
		// it) is reachable without a ScalarBaseMult made in this call (a remembered key makes two encodings linkable)
		reused, w2 := reach(f, nil, isOKReturn, isInstr(sbm), nil)
		if !reused && viaHelper != nil {
			isOKTop := func(in ssa.Instruction) bool {
				ret, ok := in.(*ssa.Return)
				if !ok || len(ret.Results) == 0 || ret.Block().Comment == "recover" {
					return false
				}
				cst, isC := returnedValue(ret, len(ret.Results)-1, nil).(*ssa.Const)
				return isC && cst.Value == nil
			}
			reused, w2 = reach(top, nil, isOKTop, isInstr(viaHelper), nil)
		}
		if reused {
			r.Bad("C15.3", typ+".Obfuscate: every encoding generates its own ephemeral key", sbm.Pos(), fnName(f),
				"a successful return is reachable without a key generation in this call (a cached / remembered ephemeral key): two encodings of a tag share their first 32 bytes and are linkable - not a fresh encoding every time", r.blockPath(f, w2)...)
		} else {
			r.OK("C15.3", typ+".Obfuscate: every encoding generates its own ephemeral key", sbm.Pos(), "no successful return reachable without ScalarBaseMult in this call")
		}
		r.Check(!stale1 && !stale2, "C15.3", typ+".Obfuscate: ephemeral private key filled from crypto/rand before every ScalarBaseMult", sbm.Pos(), fnName(f), "must-pass rand.Read(clientPrivate[:])",
			"a path reaches the key derivation without refilling the ephemeral private key from crypto/rand: a fixed or reused ephemeral key makes every tag for a station identical/linkable")
	}

	// ---- C15.5 results do not alias recycled buffers
	r.Rule("C15.5", "no encoder returns memory of a buffer it hands back to a sync.Pool (use after release)", 0)
	nPool := 0
	var encFns []*ssa.Function
	for _, f := range c.funcsOfPkgs(dnsPkgs...) {
		encFns = append(encFns, f)
	}
	for _, v := range poolAliasViolations(encFns) {
		nPool++
		r.Bad("C15.5", fnName(v.Fn)+": returns memory of a buffer put back into a sync.Pool", v.Ret.Pos(), fnName(v.Fn),
			"the returned slice "+firstN(pathOf(v.Val), 60)+" aliases "+firstN(v.Buf, 40)+", which this function returns to a sync.Pool: the next encoding overwrites the previous result, so decoding an earlier encoding yields a later value (and encodings held together are identical)")
	}
	if nPool == 0 {
		r.OK("C15.5", "no encoder result aliases a pooled buffer", token.NoPos, fmt.Sprintf("%d function(s) scanned", len(encFns)))
	}

	// ---- C15.7 unpacking replaces: what UnmarshalAnypbTo leaves in the destination is exactly the packed message - the
	// decode goes through anypb.UnmarshalTo / proto.Unmarshal with options that reset the destination (no Merge),
	// and only when the type URL was absent or the destination's own
	r.Rule("C15.7", "UnmarshalAnypbTo decodes with replacing (non-merging) options, after the type-URL check", 1)
	if f := c.fn("C15.7", "pkg/transports", "", "UnmarshalAnypbTo"); f != nil && len(f.Params) == 2 {
		n := 0
		eachInstr(f, func(in ssa.Instruction) {
			call, ok := in.(*ssa.Call)
			if !ok {
				return
			}
			cn := calleeName(&call.Call)
			isDecode := cn == "google.golang.org/protobuf/types/known/anypb.UnmarshalTo" || cn == "(*google.golang.org/protobuf/types/known/anypb.Any).UnmarshalTo" ||
				cn == "google.golang.org/protobuf/proto.Unmarshal" || cn == "(google.golang.org/protobuf/proto.UnmarshalOptions).Unmarshal"
			if !isDecode {
				return
			}
			n++
			// the options value (if any) is the zero value or has Merge == false: a composite literal whose Merge
			// field is never stored true
			merge := false
			for _, a := range call.Call.Args {
				if typeShort(a.Type()) != "proto.UnmarshalOptions" {
					continue
				}
				if ld, isLd := a.(*ssa.UnOp); isLd {
					if al, isAl := ld.X.(*ssa.Alloc); isAl && al.Referrers() != nil {
						for _, ref := range *al.Referrers() {
							if fa, isFA := ref.(*ssa.FieldAddr); isFA && fieldName(fa.X.Type(), fa.Field) == "Merge" && fa.Referrers() != nil {
								for _, r2 := range *fa.Referrers() {
									if st, isSt := r2.(*ssa.Store); isSt {
										if cv, isC := constOf(st.Val); !isC || cv.String() != "false" {
											merge = true
										}
									}
								}
							}
						}
					}
				} else if _, isConst := a.(*ssa.Const); !isConst {
					merge = true // an options value the rule cannot see through
				}
			}
			intoDst := false
			for _, a := range call.Call.Args {
				if stripConv(a) == ssa.Value(f.Params[1]) {
					intoDst = true
				}
				if mi, isMI := a.(*ssa.MakeInterface); isMI && mi.X == ssa.Value(f.Params[1]) {
					intoDst = true
				}
				if ci, isCI := a.(*ssa.ChangeInterface); isCI && ci.X == ssa.Value(f.Params[1]) {
					intoDst = true
				}
			}
			r.Check(!merge && intoDst, "C15.7", "UnmarshalAnypbTo: decode into dst resets it (Merge off)", call.Pos(), fnName(f), shortName(cn),
				"the packed parameters are merged into the destination instead of replacing it: optional fields the packed value leaves unset keep whatever the destination held, and the call still returns nil")
		})
		if n == 0 {
			r.Unk("C15.7", "UnmarshalAnypbTo: decode call", f.Pos(), fnName(f), "no anypb.UnmarshalTo / proto.Unmarshal found")
		}
	}

	// ---- C15.6 a message handed to its own goroutine owns its bytes: the buffer a loop receives into and passes to a
	// goroutine is allocated per iteration (the next receive must not overwrite a message that is still being decoded)
	r.Rule("C15.6", "a receive buffer passed to a per-message goroutine is allocated per message", 1)
	nGo := 0
	for _, f := range encFns {
		for _, v := range sharedLoopBuffers(f) {
			r.Bad("C15.6", fnName(f)+": goroutine per message shares the receive buffer "+firstN(v.buf, 40), v.g.Pos(), fnName(f),
				"the loop reads the next message into "+firstN(v.buf, 40)+" (allocated once, outside the loop) while the goroutine started for the previous message still decodes a slice of it: a query is decoded as another requester's query and the response goes out under the wrong exchange")
		}
		eachInstr(f, func(in ssa.Instruction) {
			if g, ok := in.(*ssa.Go); ok {
				if again, _ := reach(f, g, isInstr(g), nil, nil); again {
					nGo++
					r.OK("C15.6", fnName(f)+": goroutine per message", g.Pos(), "every buffer it receives that the loop reads into is allocated inside the loop")
				}
			}
		})
	}
	if nGo == 0 {
		r.Unk("C15.6", "per-message goroutines", token.NoPos, "", "no goroutine started in a loop found in the DNS registrar packages (RecvAndRespond has one)")
	}

	// ---- C15.4 validated names
	r.Rule("C15.4", "names sent by requester/responder are validated names", 3)
	for _, f := range c.funcsOfPkgs("pkg/registrars/dns-registrar/requester", "pkg/registrars/dns-registrar/responder") {
		eachInstr(f, func(in ssa.Instruction) {
			st, ok := in.(*ssa.Store)
			if !ok {
				return
			}
			o, fld, ok := fieldOwner(st.Addr)
			if !ok || fld != "Name" || (o != "dns.Question" && o != "dns.RR") {
				return
			}
			src := pathOf(st.Val)
			okSrc := strings.HasPrefix(src, "dns.NewName(") || strings.HasPrefix(src, "dns.ParseName(") || src == "nil" || strings.Contains(src, ".Question[") || strings.Contains(src, ".Answer[") ||
				strings.HasPrefix(src, "new(dns.Name)") || strings.HasPrefix(src, "make(dns.Name)") || src == "dns.Name(nil)"
			if cst, isC := st.Val.(*ssa.Const); isC && cst.Value == nil {
				okSrc = true
			}
			if ms, isMS := st.Val.(*ssa.MakeSlice); isMS {
				if cv, ok := constOf(ms.Len); ok && cv.String() == "0" {
					okSrc = true
				}
			}
			if sl, isSl := st.Val.(*ssa.Slice); isSl {
				if a, isA := sl.X.(*ssa.Alloc); isA && strings.HasPrefix(typeShort(a.Type()), "*[0]") {
					okSrc = true // empty composite literal dns.Name{}
				}
			}
			r.Check(okSrc, "C15.4", fnName(f)+": "+o+".Name <- "+firstN(src, 60), st.Pos(), fnName(f), "validated constructor, parsed message or empty name",
				"a name that did not pass NewName/ParseName validation is placed in a DNS message: WriteName panics on an empty or >63-byte label, or the name is silently mangled on the wire")
		})
	}
}

// dependsOnBuffer: v depends on a load from an element of the buffer passed as `buf` (same slice value or same underlying path).
func dependsOnBuffer(v ssa.Value, buf ssa.Value) bool {
	bp := pathOf(buf)
	seen := map[ssa.Value]bool{}
	var walk func(x ssa.Value, d int) bool
	walk = func(x ssa.Value, d int) bool {
		if x == nil || d > 20 || seen[x] {
			return false
		}
		seen[x] = true
		if x == buf {
			return true
		}
		switch y := x.(type) {
		case *ssa.IndexAddr:
			if y.X == buf || pathOf(y.X) == bp {
				return true
			}
		case *ssa.Range:
			if y.X == buf || pathOf(y.X) == bp {
				return true
			}
		}
		if in, ok := x.(ssa.Instruction); ok {
			for _, op := range in.Operands(nil) {
				if *op != nil && walk(*op, d+1) {
					return true
				}
			}
		}
		return false
	}
	return walk(v, 0)
}

type poolAlias struct {
	Fn  *ssa.Function
	Ret *ssa.Return
	Val ssa.Value
	Buf string
}

// poolAliasViolations: functions that Put (directly or by defer) a value into a sync.Pool and return
// a slice obtained from a method of that same value (buf.Bytes(), …).
func poolAliasViolations(fns []*ssa.Function) []poolAlias {
	var out []poolAlias
	for _, f := range fns {
		var pooled []ssa.Value
		eachInstr(f, func(in ssa.Instruction) {
			ci, ok := in.(ssa.CallInstruction)
			if !ok || calleeName(ci.Common()) != "(*sync.Pool).Put" {
				return
			}
			pooled = append(pooled, stripConv(ci.Common().Args[1]))
		})
		// deferred closures that Put a captured variable
		for _, a := range f.AnonFuncs {
			eachInstr(a, func(in ssa.Instruction) {
				ci, ok := in.(ssa.CallInstruction)
				if !ok || calleeName(ci.Common()) != "(*sync.Pool).Put" {
					return
				}
				v := stripConv(ci.Common().Args[1])
				if u, ok := v.(*ssa.UnOp); ok {
					if fv, ok := u.X.(*ssa.FreeVar); ok {
						// find the binding in f
						eachInstr(f, func(in2 ssa.Instruction) {
							if mc, ok := in2.(*ssa.MakeClosure); ok && mc.Fn == ssa.Value(a) {
								for i, x := range a.FreeVars {
									if x == fv && i < len(mc.Bindings) {
										pooled = append(pooled, mc.Bindings[i])
									}
								}
							}
						})
					}
				}
			})
		}
		if len(pooled) == 0 {
			continue
		}
		isPooled := func(v ssa.Value) (string, bool) {
			v = stripConv(v)
			for _, p := range pooled {
				if v == p || pathOf(v) == pathOf(p) {
					return pathOf(p), true
				}
				// value loaded from the same local cell
				if u, ok := v.(*ssa.UnOp); ok && u.X == p {
					return pathOf(p), true
				}
			}
			return "", false
		}
		eachInstr(f, func(in ssa.Instruction) {
			ret, ok := in.(*ssa.Return)
			if !ok {
				return
			}
			for _, res := range ret.Results {
				seen := map[ssa.Value]bool{}
				var walk func(x ssa.Value, d int) (string, bool)
				walk = func(x ssa.Value, d int) (string, bool) {
					if x == nil || d > 12 || seen[x] {
						return "", false
					}
					seen[x] = true
					// the pooled value itself, when it is a slice (a pooled []byte handed out directly)
					if _, isSlice := x.Type().Underlying().(*types.Slice); isSlice {
						if b, ok := isPooled(x); ok {
							return b, true
						}
					}
					switch y := x.(type) {
					case *ssa.TypeAssert:
						return walk(y.X, d+1)
					case *ssa.Call:
						if rv := recvOf(&y.Call); rv != nil {
							if b, ok := isPooled(rv); ok {
								if _, isSlice := y.Type().Underlying().(*types.Slice); isSlice {
									return b, true
								}
							}
						}
						return "", false // results of other calls are fresh values
					case *ssa.Slice:
						return walk(y.X, d+1)
					case *ssa.Phi:
						for _, e := range y.Edges {
							if b, ok := walk(e, d+1); ok {
								return b, true
							}
						}
					case *ssa.UnOp:
						return walk(y.X, d+1)
					case *ssa.Alloc:
						// result slot / local: look at stores
						if y.Referrers() != nil {
							for _, ref := range *y.Referrers() {
								if st, ok := ref.(*ssa.Store); ok && st.Addr == ssa.Value(y) {
									if b, ok := walk(st.Val, d+1); ok {
										return b, true
									}
								}
							}
						}
					case *ssa.ChangeType:
						return walk(y.X, d+1)
					case *ssa.Convert:
						return walk(y.X, d+1)
					}
					return "", false
				}
				if b, ok := walk(res, 0); ok {
					out = append(out, poolAlias{f, ret, res, b})
				}
			}
		})
	}
	return out
}

// hashDerived: v is (a local holding) the SHA-256 digest of the shared secret - sha256.Sum256 itself, or the result
// of a same-package helper that returns it.
func hashDerived(v ssa.Value, depth int) bool {
	if v == nil || depth > 6 {
		return false
	}
	if strings.Contains(pathOf(v), "sha256.Sum256(") {
		return true
	}
	switch x := v.(type) {
	case *ssa.Alloc:
		if x.Referrers() != nil {
			for _, ref := range *x.Referrers() {
				if st, ok := ref.(*ssa.Store); ok && st.Addr == ssa.Value(x) && hashDerived(st.Val, depth+1) {
					return true
				}
			}
		}
		return x.Comment == "stationPubkeyHash"
	case *ssa.UnOp:
		return hashDerived(x.X, depth+1)
	case *ssa.Extract:
		if call, ok := x.Tuple.(*ssa.Call); ok {
			return helperReturnsHash(call, x.Index, depth)
		}
	case *ssa.Call:
		return helperReturnsHash(x, 0, depth)
	case *ssa.Phi:
		for _, e := range x.Edges {
			if hashDerived(e, depth+1) {
				return true
			}
		}
	}
	return false
}

func helperReturnsHash(call *ssa.Call, idx int, depth int) bool {
	if calleeName(&call.Call) == "crypto/sha256.Sum256" {
		return true
	}
	h := call.Call.StaticCallee()
	if h == nil || h.Blocks == nil || !isRepoPath(fnPkgPath(h)) {
		return false
	}
	found := false
	eachInstr(h, func(in ssa.Instruction) {
		if ret, ok := in.(*ssa.Return); ok && idx < len(ret.Results) && hashDerived(returnedValue0(ret, idx, nil), depth+1) {
			found = true
		}
	})
	return found
}

// isRepresentative: v is the local array holding the Elligator representative: named so, or handed to
// extra25519.RepresentativeToPublicKey.
func isRepresentative(v ssa.Value) bool {
	if strings.Contains(pathOf(v), "representative") {
		return true
	}
	al, ok := v.(*ssa.Alloc)
	if !ok || al.Referrers() == nil {
		return false
	}
	for _, ref := range *al.Referrers() {
		if call, ok := ref.(*ssa.Call); ok && strings.HasSuffix(calleeName(&call.Call), "RepresentativeToPublicKey") && len(call.Call.Args) == 2 && call.Call.Args[1] == ssa.Value(al) {
			return true
		}
	}
	return false
}

// sharedLoopBuffers: go statements inside a loop of f that receive (as an argument or captured variable) memory of a
// byte buffer which is allocated outside that loop and which a Read*/Recv* call inside the loop fills.
type sharedBuf struct {
	g   *ssa.Go
	buf string
}

func sharedLoopBuffers(f *ssa.Function) []sharedBuf {
	var out []sharedBuf
	inLoopWith := func(a, g ssa.Instruction) bool {
		fwd, _ := reach(f, a, isInstr(g), nil, nil)
		back, _ := reach(f, g, isInstr(a), nil, nil)
		return (fwd && back) || a == g
	}
	roots := bufferRoots
	eachInstr(f, func(in ssa.Instruction) {
		g, ok := in.(*ssa.Go)
		if !ok {
			return
		}
		if again, _ := reach(f, g, isInstr(g), nil, nil); !again {
			return
		}
		var handed []ssa.Value
		handed = append(handed, g.Call.Args...)
		if mc, ok := g.Call.Value.(*ssa.MakeClosure); ok {
			handed = append(handed, mc.Bindings...)
		}
		for _, h := range handed {
			for _, root := range roots(h, 0, map[ssa.Value]bool{}) {
				ri, ok := root.(ssa.Instruction)
				if !ok || inLoopWith(ri, g) {
					continue // allocated per iteration
				}
				// filled by a read in the loop?
				filled := false
				eachInstr(f, func(in2 ssa.Instruction) {
					call, ok := in2.(*ssa.Call)
					if !ok || !inLoopWith(call, g) {
						return
					}
					sh := calleeShort(&call.Call)
					if !strings.HasPrefix(sh, "Read") && !strings.HasPrefix(sh, "Recv") {
						return
					}
					for _, a := range call.Call.Args {
						for _, r2 := range roots(a, 0, map[ssa.Value]bool{}) {
							if r2 == root {
								filled = true
							}
						}
					}
				})
				if filled {
					out = append(out, sharedBuf{g, pathOf(root)})
				}
			}
		}
	})
	return out
}

// backing buffers of v: MakeSlice values and array allocations reached through slices, loads and stores of locals
func bufferRoots(v ssa.Value, d int, seen map[ssa.Value]bool) []ssa.Value {
	if v == nil || d > 8 || seen[v] {
		return nil
	}
	seen[v] = true
	switch x := v.(type) {
	case *ssa.MakeSlice:
		return []ssa.Value{x}
	case *ssa.Slice:
		return bufferRoots(x.X, d+1, seen)
	case *ssa.Alloc:
		if p, ok := x.Type().Underlying().(*types.Pointer); ok {
			if _, isArr := p.Elem().Underlying().(*types.Array); isArr {
				return []ssa.Value{x}
			}
		}
		var rs []ssa.Value
		if x.Referrers() != nil {
			for _, ref := range *x.Referrers() {
				if st, ok := ref.(*ssa.Store); ok && st.Addr == ssa.Value(x) {
					rs = append(rs, bufferRoots(st.Val, d+1, seen)...)
				}
			}
		}
		return rs
	case *ssa.UnOp:
		return bufferRoots(x.X, d+1, seen)
	case *ssa.Phi:
		var rs []ssa.Value
		for _, e := range x.Edges {
			rs = append(rs, bufferRoots(e, d+1, seen)...)
		}
		return rs
	case *ssa.ChangeType:
		return bufferRoots(x.X, d+1, seen)
	case *ssa.Convert:
		return bufferRoots(x.X, d+1, seen)
	}
	return nil
}
