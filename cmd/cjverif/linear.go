package main

import (
	"go/constant"
	"go/token"
	"go/types"
	"sort"
	"strings"

	"golang.org/x/tools/go/ssa"
)

// A tiny linear-integer layer for "variable slice bound" obligations: terms are sums of symbols (canonical access
// paths, len(path)) with integer coefficients plus a constant; guards are the comparisons that dominate an
// instruction. An obligation T <= 0 is proven when some dominating guard G <= 0 differs from T by a constant <= 0.

type linTerm struct {
	coef map[string]int64
	c    int64
	ok   bool
}

func (t linTerm) sub(o linTerm) linTerm {
	r := linTerm{coef: map[string]int64{}, c: t.c - o.c, ok: t.ok && o.ok}
	for k, v := range t.coef {
		r.coef[k] += v
	}
	for k, v := range o.coef {
		r.coef[k] -= v
	}
	for k, v := range r.coef {
		if v == 0 {
			delete(r.coef, k)
		}
	}
	return r
}

func (t linTerm) add(o linTerm) linTerm {
	return t.sub(linTerm{coef: negate(o.coef), c: -o.c, ok: o.ok})
}

func negate(m map[string]int64) map[string]int64 {
	r := map[string]int64{}
	for k, v := range m {
		r[k] = -v
	}
	return r
}

func (t linTerm) key() string {
	var ks []string
	for k, v := range t.coef {
		ks = append(ks, k+"*"+itoa(int(v)))
	}
	sort.Strings(ks)
	return strings.Join(ks, "+")
}

func linConst(c int64) linTerm { return linTerm{coef: map[string]int64{}, c: c, ok: true} }

func linSym(s string) linTerm { return linTerm{coef: map[string]int64{s: 1}, ok: true} }

// lenOf is the linear term for len(v): len(p[n:]) = len(p) - n, len(p[:h]) = h, len(p[l:h]) = h - l.
func lenOf(v ssa.Value, d int) linTerm {
	if d > 6 {
		return linTerm{}
	}
	switch x := v.(type) {
	case *ssa.Slice:
		if _, isPtr := x.X.Type().Underlying().(*types.Pointer); !isPtr {
			lo := linConst(0)
			if x.Low != nil {
				lo = linOf(x.Low, d+1)
			}
			if x.High != nil {
				return linOf(x.High, d+1).sub(lo)
			}
			return lenOf(x.X, d+1).sub(lo)
		}
		if at, ok := x.X.Type().Underlying().(*types.Pointer).Elem().Underlying().(*types.Array); ok {
			lo, hi := linConst(0), linConst(at.Len())
			if x.Low != nil {
				lo = linOf(x.Low, d+1)
			}
			if x.High != nil {
				hi = linOf(x.High, d+1)
			}
			return hi.sub(lo)
		}
	case *ssa.MakeSlice:
		return linOf(x.Len, d+1)
	case *ssa.Call:
		// a bytes.Buffer's Bytes() / String() has length Len()
		if n := calleeShort(&x.Call); (n == "Bytes" || n == "String") && recvOf(&x.Call) != nil && strings.HasSuffix(typeShort(recvOf(&x.Call).Type()), "bytes.Buffer") {
			return linSym(pathOf(recvOf(&x.Call)) + ".Len()")
		}
	case *ssa.Convert:
		return lenOf(x.X, d+1)
	case *ssa.ChangeType:
		return lenOf(x.X, d+1)
	case *ssa.Const:
		if x.Value != nil && x.Value.Kind() == constant.String {
			return linConst(int64(len(constant.StringVal(x.Value))))
		}
	}
	return linSym("len(" + pathOf(v) + ")")
}

func linOf(v ssa.Value, d int) linTerm {
	if d > 8 {
		return linTerm{}
	}
	switch x := v.(type) {
	case *ssa.Const:
		if x.Value != nil {
			if n, ok := constant.Int64Val(constant.ToInt(x.Value)); ok {
				return linConst(n)
			}
		}
		return linTerm{}
	case *ssa.BinOp:
		switch x.Op {
		case token.ADD:
			return linOf(x.X, d+1).add(linOf(x.Y, d+1))
		case token.SUB:
			return linOf(x.X, d+1).sub(linOf(x.Y, d+1))
		}
	case *ssa.Convert:
		// widening integer conversions keep the value
		if sb, ok1 := bitsOf(x.X.Type()); ok1 {
			if tb, ok2 := bitsOf(x.Type()); ok2 && tb >= sb {
				return linOf(x.X, d+1)
			}
		}
	case *ssa.Call:
		if b, ok := x.Call.Value.(*ssa.Builtin); ok && b.Name() == "len" && len(x.Call.Args) == 1 {
			return lenOf(x.Call.Args[0], d+1)
		}
	}
	return linSym(pathOf(v))
}

// guardsLE returns the dominating inequalities of `in`, each as a term G with the meaning G <= 0.
func guardsLE(f *ssa.Function, in ssa.Instruction) []linTerm {
	var out []linTerm
	for _, bc := range branchConds(f) {
		b, cond, neg := bc.b, bc.cond, bc.neg
		_ = b
		bo, ok := cond.(*ssa.BinOp)
		if !ok {
			continue
		}
		l, r := linOf(bo.X, 0), linOf(bo.Y, 0)
		if !l.ok || !r.ok {
			continue
		}
		// which successor establishes what
		for slot := 0; slot < 2; slot++ {
			holds := slot == 0
			if neg {
				holds = !holds
			}
			// does this edge dominate `in` (is `in` unreachable once the edge is removed)?
			only := map[edge]bool{bc.edge(slot): true}
			if reachable, _ := reach(f, nil, isInstr(in), nil, only); reachable {
				continue
			}
			op := bo.Op
			if !holds {
				switch op {
				case token.LSS:
					op = token.GEQ
				case token.LEQ:
					op = token.GTR
				case token.GTR:
					op = token.LEQ
				case token.GEQ:
					op = token.LSS
				case token.EQL:
					op = token.NEQ
				case token.NEQ:
					op = token.EQL
				}
			}
			switch op {
			case token.LSS: // l < r  => l - r + 1 <= 0
				out = append(out, l.sub(r).add(linConst(1)))
			case token.LEQ:
				out = append(out, l.sub(r))
			case token.GTR: // l > r => r - l + 1 <= 0
				out = append(out, r.sub(l).add(linConst(1)))
			case token.GEQ:
				out = append(out, r.sub(l))
			case token.EQL:
				out = append(out, l.sub(r), r.sub(l))
			}
		}
	}
	return out
}

// provenLE: T <= 0 follows from one dominating guard (same symbolic part, constant no larger), or T is a
// non-positive constant.
func provenLE(t linTerm, guards []linTerm) bool {
	if !t.ok {
		return false
	}
	if len(t.coef) == 0 {
		return t.c <= 0
	}
	// lengths are non-negative: -len(a) - len(b) + c <= 0 for c <= 0
	allNegLen := t.c <= 0
	for k, v := range t.coef {
		if !(v < 0 && (strings.HasPrefix(k, "len(") || strings.HasSuffix(k, ".Len()"))) {
			allNegLen = false
		}
	}
	if allNegLen {
		return true
	}
	for _, g := range guards {
		if g.ok && g.key() == t.key() && t.c <= g.c {
			return true
		}
	}
	// transitivity: the sum of two dominating guards (each <= 0) is <= 0 (j < i and i < len(s) give j < len(s))
	if len(guards) <= 64 {
		for i, g1 := range guards {
			if !g1.ok {
				continue
			}
			for _, g2 := range guards[i+1:] {
				if !g2.ok {
					continue
				}
				sum := g1.add(g2)
				if sum.ok && sum.key() == t.key() && t.c <= sum.c {
					return true
				}
			}
		}
	}
	return false
}
