package main

import (
	"fmt"
	"go/token"
	"regexp"
	"strings"

	"golang.org/x/tools/go/ssa"
)

func init() {
	register("C18", &propCheck{Run: checkC18,
		Explain: "C18.1 truth table (finite predicate abstraction) of every cache Lookup: true is returned iff the key is present and Since(cachedTime) < expiration; " +
			"C18.2 probe results are stored in the cache matching the verdict, cache hits return the verdict of the cache they came from, and the probe is only reached on a double miss; " +
			"C18.3 Init wires each cache only from its own duration/capacity settings and passes the capacity it tested; " +
			"C18.4 every call through the optional cache fields is dominated by a nil test of the same field; " +
			"C18.5 cache maps are touched only under their mutex, every LRU map insert is followed by lru.Add, the eviction callback deletes the key under the lock, and the LRU is created with the configured size. " +
			"Decides the condition forms, polarity and wiring on all paths; not behaviour over histories or the LRU library.",
		Assume: []string{"hashicorp/golang-lru evicts down to the size it was created with and calls the eviction callback", "time.Since is monotone"}})
}

var reExpField = regexp.MustCompile(`^[A-Za-z_][A-Za-z0-9_]*\.expiration$`)

// returnedValue resolves result #idx of a Return through defer-spill slots and phis (prev = predecessor block taken).
func returnedValue(ret *ssa.Return, idx int, prev *ssa.BasicBlock) ssa.Value {
	v := returnedValue0(ret, idx, prev)
	// the value of a short-circuit expression (return a && b): the operand selected by the path taken
	if ph, ok := v.(*ssa.Phi); ok && prev != nil && ph.Block() == ret.Block() {
		for i, p := range ph.Block().Preds {
			if p == prev && i < len(ph.Edges) {
				return ph.Edges[i]
			}
		}
	}
	return v
}

func returnedValue0(ret *ssa.Return, idx int, prev *ssa.BasicBlock) ssa.Value {
	v := ret.Results[idx]
	if u, ok := v.(*ssa.UnOp); ok && u.Op == token.MUL {
		if a, ok := u.X.(*ssa.Alloc); ok {
			// last store to the slot before the return in this block, else in the predecessor chain (single pred)
			b := ret.Block()
			for hops := 0; hops < 6 && b != nil; hops++ {
				for i := len(b.Instrs) - 1; i >= 0; i-- {
					if st, ok := b.Instrs[i].(*ssa.Store); ok && st.Addr == ssa.Value(a) {
						return st.Val
					}
				}
				if len(b.Preds) == 1 {
					b = b.Preds[0]
				} else if prev != nil && hops == 0 {
					b = prev
				} else {
					b = nil
				}
			}
		}
	}
	return v
}

func checkC18(c *Ctx) {
	r := c.R
	const lv = "pkg/station/liveness"

	// ---- C18.1 age test
	r.Rule("C18.1", "Lookup returns true iff present and younger than the expiration (truth table)", 2)
	for _, typ := range []string{"lruCache", "mapCache"} {
		f := c.fn("C18.1", lv, typ, "Lookup")
		if f == nil {
			continue
		}
		classify := func(cnd string) (string, bool, bool) {
			switch {
			case strings.HasSuffix(cnd, ".ipCache[key]#1"):
				return "present", true, true
			default:
				// the age must be compared with the configured expiration field itself, not with a value derived from it
				l, rr, ok := splitLt(cnd)
				if !ok {
					return "", false, false
				}
				isAge := func(x string) bool {
					return strings.HasPrefix(x, "time.Since(") && strings.HasSuffix(x, ".cachedTime)") && balancedCall(x)
				}
				if isAge(l) && reExpField.MatchString(rr) {
					return "fresh", true, true // Since(cachedTime) < expiration
				}
				if isAge(rr) && reExpField.MatchString(l) {
					return "fresh", false, true // expiration < Since => not fresh (boundary instant not distinguished)
				}
				// any other comparison is a free atom of the table: the answer must not depend on it
				return "other " + cnd, true, true
			}
			return "", false, false
		}
		var clsErr string
		outcome := func(in ssa.Instruction, b *ssa.BasicBlock, idx int, prev *ssa.BasicBlock, val map[string]bool) string {
			ret, ok := in.(*ssa.Return)
			if !ok {
				return ""
			}
			if val == nil {
				return "ret"
			}
			v := returnedValue(ret, 0, prev)
			if cv, ok := constOf(v); ok {
				return cv.String()
			}
			cnd, pol := normCond(v)
			a, apol, ok := classify(cnd)
			if !ok {
				// the returned expression is a predicate helper of the package: its own decision, in this function's names
				if hv, hok := evalPredicateHelper(f, v, classify, val, 0); hok {
					if hv == pol {
						return "true"
					}
					return "false"
				}
				clsErr = "returned value " + cnd + " is not a recognised atom"
				return "unknown"
			}
			if (val[a] == apol) == pol {
				return "true"
			}
			return "false"
		}
		// atoms that only occur in a returned boolean expression (return ok && age < exp)
		var retAtoms []string
		eachInstr(f, func(in ssa.Instruction) {
			ret, ok := in.(*ssa.Return)
			if !ok || len(ret.Results) == 0 {
				return
			}
			vals := []ssa.Value{returnedValue0(ret, 0, nil)}
			if ph, ok := vals[0].(*ssa.Phi); ok {
				vals = ph.Edges
			}
			for _, v := range vals {
				if _, isConst := v.(*ssa.Const); isConst {
					continue
				}
				cnd, _ := normCond(v)
				if a, _, ok := classify(cnd); ok {
					retAtoms = append(retAtoms, a)
				} else if more, ok := predicateTableAtoms(f, v, classify, 0); ok {
					retAtoms = append(retAtoms, more...)
				}
			}
		})
		res, err := condFormWith(f, f.Blocks[0], 0, classify, outcome, 6, retAtoms)
		if err != nil || clsErr != "" {
			msg := clsErr
			if err != nil {
				msg = err.Error()
			}
			r.Unk("C18.1", typ+".Lookup: age test", f.Pos(), fnName(f), msg)
			continue
		}
		diffs := res.compare(func(v map[string]bool) string {
			if v["present"] && v["fresh"] {
				return "true"
			}
			return "false"
		})
		hasFresh := false
		for _, a := range res.Atoms {
			if a == "fresh" {
				hasFresh = true
			}
		}
		if !hasFresh {
			diffs = append(diffs, "the lookup never compares the entry's age with the expiration")
		}
		if len(diffs) > 0 {
			r.Bad("C18.1", typ+".Lookup: answers from the cache under a condition other than present && age < expiration", f.Pos(), fnName(f),
				"a stale (or absent) entry can be served as a cache hit, or a fresh one is not", diffs...)
		} else {
			r.OK("C18.1", typ+".Lookup: true iff present && Since(cachedTime) < expiration", f.Pos(), fmt.Sprintf("truth table over %v", res.Atoms))
		}
	}

	// ---- C18.2 polarity
	r.Rule("C18.2", "verdict and cache agree: Add to the cache of the measured verdict; hits return their cache's verdict; probe only on a double miss", 5)
	if f := c.fn("C18.2", lv, "CachedLivenessTester", "PhantomIsLive"); f != nil {
		var probe *ssa.Call
		eachInstr(f, func(in ssa.Instruction) {
			if call, ok := in.(*ssa.Call); ok && !call.Call.IsInvoke() && call.Call.StaticCallee() == nil {
				if u, ok := call.Call.Value.(*ssa.UnOp); ok {
					if _, fld, ok := fieldOwner(u.X); ok && fld == "phantomIsLive" {
						probe = call
					}
				}
			}
		})
		if probe == nil {
			r.Unk("C18.2", "PhantomIsLive: probe call", f.Pos(), fnName(f), "call through the phantomIsLive field not found")
		} else {
			verdict := pathOf(probe) + "#0"
			// once the phantom was probed, the answer is what the probe measured (whatever error came with it): no
			// other record of an earlier verdict is consulted after the probe
			eachInstr(f, func(in ssa.Instruction) {
				ret, ok := in.(*ssa.Return)
				if !ok || len(ret.Results) != 2 || ret.Block().Comment == "recover" {
					return
				}
				if after, _ := reach(f, probe, isInstr(ret), nil, nil); !after {
					return
				}
				rv := pathOf(returnedValue(ret, 0, nil))
				r.Check(rv == verdict, "C18.2", "PhantomIsLive: after a probe the answer is the probe's verdict", ret.Pos(), fnName(f), firstN(rv, 60),
					"after probing, PhantomIsLive answers "+firstN(rv, 60)+" instead of the verdict the probe just measured: a remembered verdict of any age (or a flipped one) is served in place of the measurement")
			})
			for _, call := range callsIn(f, shortIs("Add")) {
				cc := call.(*ssa.Call)
				if !cc.Call.IsInvoke() {
					continue
				}
				recv := pathOf(cc.Call.Value)
				switch {
				case strings.HasSuffix(recv, ".ipCacheLive"):
					r.Check(guarded(f, cc, Atom{verdict, true}), "C18.2", "PhantomIsLive: ipCacheLive.Add only for a live verdict", cc.Pos(), fnName(f), "guarded by "+firstN(verdict, 60),
						"a non-live measurement can be stored in the live cache: later lookups answer `live` for a phantom that was measured non-live")
				case strings.HasSuffix(recv, ".ipCacheNonLive"):
					r.Check(guarded(f, cc, Atom{verdict, false}), "C18.2", "PhantomIsLive: ipCacheNonLive.Add only for a non-live verdict", cc.Pos(), fnName(f), "guarded by !"+firstN(verdict, 60),
						"a live measurement can be stored in the non-live cache: a live phantom is later admitted from the cache")
				}
				// the key added is the address parameter
				if a := argsOf(&cc.Call); len(a) > 0 {
					r.Check(pathOf(a[0]) == "addr", "C18.2", "PhantomIsLive: "+recv[strings.LastIndex(recv, ".")+1:]+".Add keyed by the probed address", cc.Pos(), fnName(f), pathOf(a[0]), "the verdict is cached under a key other than the probed address")
				}
			}
			// an entry is (re)stored only with a measurement made in this call: no cache Add - direct or through a helper -
			// is reachable without passing the probe (otherwise a hit restarts the entry's lifetime: sliding expiry)
			var addsCache func(g *ssa.Function, d int) bool
			addsCache = func(g *ssa.Function, d int) bool {
				if g == nil || g.Blocks == nil || d > 3 {
					return false
				}
				found := false
				eachInstr(g, func(in ssa.Instruction) {
					ci, ok := in.(ssa.CallInstruction)
					if !ok {
						return
					}
					if ci.Common().IsInvoke() && ci.Common().Method.Name() == "Add" && strings.Contains(typeShort(ci.Common().Value.Type()), "cache") {
						found = true
					}
					if cal := ci.Common().StaticCallee(); cal != nil && isRepoPath(fnPkgPath(cal)) && addsCache(cal, d+1) {
						found = true
					}
				})
				return found
			}
			stores := map[ssa.Instruction]bool{}
			eachInstr(f, func(in ssa.Instruction) {
				ci, ok := in.(ssa.CallInstruction)
				if !ok {
					return
				}
				if ci.Common().IsInvoke() && ci.Common().Method.Name() == "Add" && strings.Contains(pathOf(ci.Common().Value), ".ipCache") {
					stores[in] = true
				}
				if cal := ci.Common().StaticCallee(); cal != nil && isRepoPath(fnPkgPath(cal)) && addsCache(cal, 0) {
					stores[in] = true
				}
			})
			if len(stores) > 0 {
				noProbe, w := reach(f, nil, anyOf(stores), isInstr(probe), nil)
				if noProbe {
					r.Bad("C18.2", "PhantomIsLive: a cache entry can be stored without a measurement made in this call", probe.Pos(), fnName(f),
						"a cache Add is reachable on a path that does not pass the probe (e.g. on a cache hit): the entry's timestamp is then renewed without a new measurement, so a verdict older than the configured lifetime keeps being served", r.blockPath(f, w)...)
				} else {
					r.OK("C18.2", "PhantomIsLive: entries are stored only after the probe of this call", probe.Pos(), fmt.Sprintf("%d storing call(s), each preceded by the probe on every path", len(stores)))
				}
			}
			// probe only on double miss
			var lk *ssa.Call
			for _, call := range callsIn(f, shortIs("phantomLookup")) {
				lk = call.(*ssa.Call)
			}
			if lk == nil {
				// the lookup is written out in PhantomIsLive itself: the same three conditions on the direct Lookup tests
				isHit := func(field string) func(string, bool) bool {
					return func(cnd string, pol bool) bool { return pol && strings.HasSuffix(cnd, "."+field+".Lookup(addr)") }
				}
				isMissOrOff := func(field string) func(string, bool) bool {
					return func(cnd string, pol bool) bool {
						return (!pol && strings.HasSuffix(cnd, "."+field+".Lookup(addr)")) || (pol && strings.HasSuffix(cnd, "."+field+" == nil)")) || (pol && strings.HasPrefix(cnd, "(nil == ") && strings.HasSuffix(cnd, "."+field+")"))
					}
				}
				hitL, hitN := edgesEstablishing(f, isHit("ipCacheLive")), edgesEstablishing(f, isHit("ipCacheNonLive"))
				if len(hitL) == 0 || len(hitN) == 0 {
					r.Unk("C18.2", "PhantomIsLive: phantomLookup call", f.Pos(), fnName(f), "neither a phantomLookup call nor direct Lookup tests of both caches found")
				} else {
					g := guardedM(f, probe, isMissOrOff("ipCacheLive")) && guardedM(f, probe, isMissOrOff("ipCacheNonLive"))
					r.Check(g, "C18.2", "PhantomIsLive: probe only after a cache miss without error", probe.Pos(), fnName(f), "dominated by a miss (or a disabled cache) for both caches",
						"the probe is sent although the cache answered (or the cached answer is ignored)")
					hit := map[edge]bool{}
					for e := range hitL {
						hit[e] = true
					}
					for e := range hitN {
						hit[e] = true
					}
					noProbe := false
					var wit []int
					nHitRet := 0
					eachInstr(f, func(in ssa.Instruction) {
						ret, ok := in.(*ssa.Return)
						if !ok || ret.Block().Comment == "recover" || len(ret.Results) != 2 {
							return
						}
						if free, w := reach(f, nil, isInstr(ret), isInstr(probe), hit); free {
							noProbe, wit = true, w
						}
						// a cache-hit return carries its own cache's verdict
						if strings.HasSuffix(pathOf(returnedValue(ret, 1, nil)), "ErrCachedPhantom") {
							nHitRet++
							cv, isC := constOf(returnedValue(ret, 0, nil))
							if !isC {
								r.Unk("C18.2", "phantomLookup: cached verdict", ret.Pos(), fnName(f), "cache-hit return does not return a constant verdict")
								return
							}
							field := "ipCacheNonLive"
							if cv.String() == "true" {
								field = "ipCacheLive"
							}
							r.Check(guardedM(f, ret, isHit(field)), "C18.2", "phantomLookup: verdict "+cv.String()+" only on a hit in "+field, ret.Pos(), fnName(f), "guarded by "+field+".Lookup(addr)",
								"a hit in one cache is reported with the other cache's verdict: the cached answer is the flipped measurement")
						}
					})
					if nHitRet < 2 {
						r.Unk("C18.2", "phantomLookup: two cache-hit returns", f.Pos(), fnName(f), fmt.Sprintf("found %d", nHitRet))
					}
					if noProbe {
						r.Bad("C18.2", "PhantomIsLive: an answer can be returned without a cache hit and without probing", probe.Pos(), fnName(f),
							"a path returns a verdict that comes neither from the live / non-live cache nor from a probe made in this call: some other record of an earlier verdict is served, with no lifetime and no capacity bound", r.blockPath(f, wit)...)
					} else {
						r.OK("C18.2", "PhantomIsLive: every answer is a cache hit or a probe made in this call", probe.Pos(), "no return reachable without the probe except through the cache-hit edges")
					}
				}
			} else {
				g1 := guarded(f, probe, Atom{pathOf(lk) + "#0", false})
				g2 := guarded(f, probe, Atom{"(" + orderEq(pathOf(lk)+"#1", "nil") + ")", true})
				r.Check(g1 && g2, "C18.2", "PhantomIsLive: probe only after a cache miss without error", probe.Pos(), fnName(f), "dominated by !live && err == nil of phantomLookup",
					"the probe is sent although the cache answered (or the cached answer is ignored)")
				// "otherwise the phantom is probed again": an answer that does not come from one of the two caches
				// comes from a probe made in this call - there is no third memory of earlier verdicts
				hit := edgesEstablishing(f, atomMatcher(Atom{pathOf(lk) + "#0", true}, Atom{"(" + orderEq(pathOf(lk)+"#1", "nil") + ")", false}))
				noProbe := false
				var wit []int
				eachInstr(f, func(in ssa.Instruction) {
					if ret, ok := in.(*ssa.Return); ok && ret.Block().Comment != "recover" {
						if free, w := reach(f, nil, isInstr(ret), isInstr(probe), hit); free {
							noProbe, wit = true, w
						}
					}
				})
				if noProbe {
					r.Bad("C18.2", "PhantomIsLive: an answer can be returned without a cache hit and without probing", lk.Pos(), fnName(f),
						"a path returns a verdict that comes neither from the live / non-live cache nor from a probe made in this call: some other record of an earlier verdict is served, with no lifetime and no capacity bound", r.blockPath(f, wit)...)
				} else {
					r.OK("C18.2", "PhantomIsLive: every answer is a cache hit or a probe made in this call", lk.Pos(), "no return reachable without the probe except through the cache-hit edges")
				}
			}
		}
	}
	if f := c.P.Func(repoMod+"/"+lv, "CachedLivenessTester", "phantomLookup"); f != nil && f.Blocks != nil {
		n := 0
		eachInstr(f, func(in ssa.Instruction) {
			ret, ok := in.(*ssa.Return)
			if !ok || len(ret.Results) != 2 {
				return
			}
			if !strings.HasSuffix(pathOf(ret.Results[1]), "ErrCachedPhantom") {
				return
			}
			n++
			cv, isC := constOf(ret.Results[0])
			if !isC {
				r.Unk("C18.2", "phantomLookup: cached verdict", ret.Pos(), fnName(f), "cache-hit return does not return a constant verdict")
				return
			}
			field := "ipCacheNonLive"
			if cv.String() == "true" {
				field = "ipCacheLive"
			}
			g := guardedM(f, ret, func(cnd string, pol bool) bool { return pol && strings.Contains(cnd, "."+field+".Lookup(addr)") })
			r.Check(g, "C18.2", "phantomLookup: verdict "+cv.String()+" only on a hit in "+field, ret.Pos(), fnName(f), "guarded by "+field+".Lookup(addr)",
				"a hit in one cache is reported with the other cache's verdict: the cached answer is the flipped measurement")
		})
		if n < 2 {
			r.Unk("C18.2", "phantomLookup: two cache-hit returns", f.Pos(), fnName(f), fmt.Sprintf("found %d", n))
		}
		// the caller takes "live, or any error" as an answer from the cache: so phantomLookup answers (false, nil) unless
		// one of the caches had a hit - every return that can carry true or a non-nil error is dominated by a Lookup hit
		missOK := true
		var where token.Pos
		eachInstr(f, func(in ssa.Instruction) {
			ret, ok := in.(*ssa.Return)
			if !ok || len(ret.Results) != 2 || ret.Block().Comment == "recover" {
				return
			}
			v0, isC0 := constOf(returnedValue(ret, 0, nil))
			e1, isC1 := returnedValue(ret, 1, nil).(*ssa.Const)
			plainMiss := isC0 && v0.String() == "false" && isC1 && e1.Value == nil
			if plainMiss {
				return
			}
			if !guardedM(f, ret, func(cnd string, pol bool) bool { return pol && strings.Contains(cnd, ".Lookup(addr)") }) {
				missOK = false
				where = ret.Pos()
			}
		})
		r.Check(missOK, "C18.2", "phantomLookup: answers (false, nil) unless a cache had a hit", where, fnName(f), "every other return is dominated by a Lookup hit",
			"phantomLookup can return a verdict or an error without a hit in either cache (an expired or evicted entry, a remembered failure): PhantomIsLive takes any error as 'answered from the cache' and serves it without probing - an expired verdict is served, or flipped to 'not live'")
	}

	// ---- C18.6 the caches a tester answers from are the ones built from ITS configuration: liveness.New hands out a
	// tester allocated in that call (a tester found in a registry of earlier testers carries the capacity and lifetime
	// of whatever configuration it was first built for)
	r.Rule("C18.6", "liveness.New returns a tester allocated by that call", 1)
	if f := c.fn("C18.6", lv, "", "New"); f != nil {
		nRet := 0
		eachInstr(f, func(in ssa.Instruction) {
			ret, ok := in.(*ssa.Return)
			if !ok || len(ret.Results) != 2 || ret.Block().Comment == "recover" {
				return
			}
			v := stripConv(returnedValue(ret, 0, nil))
			if cst, isC := v.(*ssa.Const); isC && cst.Value == nil {
				return
			}
			nRet++
			fresh := false
			var chk func(v ssa.Value, d int) bool
			chk = func(v ssa.Value, d int) bool {
				if d > 4 {
					return false
				}
				switch x := stripConv(v).(type) {
				case *ssa.Alloc:
					return true
				case *ssa.Phi:
					for _, e := range x.Edges {
						if !chk(e, d+1) {
							return false
						}
					}
					return len(x.Edges) > 0
				case *ssa.Call:
					// a constructor of the package: its own returns
					if hc := helperCallee(f, &x.Call); hc != nil {
						okAll, n := true, 0
						eachInstr(hc, func(in2 ssa.Instruction) {
							if r2, ok := in2.(*ssa.Return); ok && len(r2.Results) > 0 {
								rv := stripConv(returnedValue(r2, 0, nil))
								if cst, isC := rv.(*ssa.Const); isC && cst.Value == nil {
									return
								}
								n++
								if _, isA := rv.(*ssa.Alloc); !isA {
									okAll = false
								}
							}
						})
						return okAll && n > 0
					}
				case *ssa.Extract:
					return chk(x.Tuple, d+1)
				}
				return false
			}
			fresh = chk(v, 0)
			r.Check(fresh, "C18.6", "New: the returned tester is allocated in this call", ret.Pos(), fnName(f), firstN(pathOf(v), 60),
				"liveness.New hands out a tester it did not build in this call ("+firstN(pathOf(v), 50)+"): its caches were sized and aged by another configuration, so the configured capacity does not bound them and evicted / expired entries of the other configuration are served")
		})
		if nRet == 0 {
			r.Unk("C18.6", "New: returns", f.Pos(), fnName(f), "no return with a tester found")
		}
	}

	// ---- C18.3 sibling wiring
	r.Rule("C18.3", "Init wires each cache from its own settings and passes the capacity it tested", 4)
	if f := c.fn("C18.3", lv, "CachedLivenessTester", "Init"); f != nil {
		want := map[string][2]string{"ipCacheLive": {"CacheDuration", "CacheCapacity"}, "ipCacheNonLive": {"CacheDurationNonLive", "CacheCapacityNonLive"}}
		for field, w := range want {
			stores := fieldStores(f, "liveness.CachedLivenessTester", field)
			if len(stores) == 0 {
				r.Unk("C18.3", "Init: stores to "+field, f.Pos(), fnName(f), "none found")
			}
			for _, st := range stores {
				src := stripConv(st.Val)
				if ex, isEx := src.(*ssa.Extract); isEx && ex.Index == 0 {
					src = ex.Tuple
				}
				call, ok := src.(*ssa.Call)
				if !ok {
					r.Unk("C18.3", "Init: "+field+" source", st.Pos(), fnName(f), "not a constructor call: "+pathOf(src))
					continue
				}
				// the constructor calls that produce the stored cache: the call itself, or - when the choice between the
				// two implementations sits in a helper of the package - the constructor behind each of the helper's
				// returns, read with the helper's parameters replaced by the arguments of this call
				type ctorSite struct {
					ctor    *ssa.Call
					in      *ssa.Function
					at      ssa.Instruction
					via     *ssa.CallCommon
					viaFunc *ssa.Function
				}
				var sites []ctorSite
				if hc := helperCallee(f, &call.Call); hc != nil && calleeShort(&call.Call) != "newLRUCache" && calleeShort(&call.Call) != "newMapCache" {
					undec := false
					eachInstr(hc, func(in ssa.Instruction) {
						ret, isRet := in.(*ssa.Return)
						if !isRet || len(ret.Results) == 0 {
							return
						}
						rv := stripConv(returnedValue(ret, 0, nil))
						if cst, isC := rv.(*ssa.Const); isC && cst.Value == nil {
							return // the error path hands back no cache
						}
						if ctor, isCall := rv.(*ssa.Call); isCall {
							sites = append(sites, ctorSite{ctor, hc, ret, &call.Call, hc})
							return
						}
						undec = true
					})
					if undec || len(sites) == 0 {
						r.Unk("C18.3", "Init: "+field+" source", st.Pos(), fnName(f), "helper "+fnName(hc)+" does not return constructor calls only")
						continue
					}
				} else {
					sites = []ctorSite{{call, f, st, nil, nil}}
				}
				for _, cs := range sites {
					tr := func(s string) string { return substParams(s, cs.viaFunc, cs.via) }
					name := calleeShort(&cs.ctor.Call)
					durOK := strings.Contains(tr(pathOf(cs.ctor.Call.Args[0])), "time.ParseDuration(conf."+w[0]+")#0")
					capAtom := "(" + orderEq("0", "conf."+w[1]) + ")"
					guardedBy := func(pol bool) bool {
						return guardedM(cs.in, cs.at, func(cond string, p bool) bool { return tr(cond) == capAtom && p == pol })
					}
					switch name {
					case "newLRUCache":
						capOK := tr(pathOf(cs.ctor.Call.Args[1])) == "conf."+w[1]
						g := guardedBy(false)
						r.Check(durOK && capOK && g, "C18.3", "Init: "+field+" LRU uses "+w[0]+"/"+w[1]+" and is chosen when "+w[1]+" != 0", st.Pos(), fnName(f), tr(pathOf(cs.ctor)),
							"the bounded cache for "+field+" is created from, or selected by, another cache's setting: with only "+w[1]+" configured the cache is unbounded (or sized by the wrong value)")
					case "newMapCache":
						g := guardedBy(true)
						r.Check(durOK && g, "C18.3", "Init: "+field+" unbounded map only when "+w[1]+" == 0", st.Pos(), fnName(f), tr(pathOf(cs.ctor)),
							"the unbounded map cache for "+field+" can be selected although "+w[1]+" is configured: the cache is not bounded by its capacity")
					default:
						r.Unk("C18.3", "Init: "+field+" constructor", st.Pos(), fnName(f), "unknown constructor "+name)
					}
					// only reached when its own duration is set
					r.Check(guarded(f, st, Atom{"(" + orderEq(`""`, "conf."+w[0]) + ")", false}), "C18.3", "Init: "+field+" ("+name+") created only when "+w[0]+" is set", st.Pos(), fnName(f), "guarded", field+" is created under another cache's duration setting")
				}
			}
		}
	}

	// ---- C18.4 optional caches
	r.Rule("C18.4", "calls through ipCacheLive / ipCacheNonLive are dominated by a nil test of the same field", 8)
	for _, f := range c.funcsOfPkgs(lv) {
		eachInstr(f, func(in ssa.Instruction) {
			call, ok := in.(*ssa.Call)
			if !ok || !call.Call.IsInvoke() {
				return
			}
			u, ok := call.Call.Value.(*ssa.UnOp)
			if !ok {
				return
			}
			o, fld, ok := fieldOwner(u.X)
			if !ok || o != "liveness.CachedLivenessTester" || (fld != "ipCacheLive" && fld != "ipCacheNonLive") {
				return
			}
			p := pathOf(u)
			g := guarded(f, in, Atom{"(" + orderEq(p, "nil") + ")", false})
			r.Check(g, "C18.4", fnName(f)+": "+p+"."+call.Call.Method.Name()+" under "+p+" != nil", in.Pos(), fnName(f), "dominated by the nil test of the same field",
				"the optional cache "+p+" is called without a nil test of that same field: with only the other cache configured this is a nil-interface call and the station panics")
		})
	}

	// ---- C18.5 LRU discipline
	r.Rule("C18.5", "cache maps under their mutex; LRU insert followed by lru.Add; eviction deletes under lock; LRU sized by the configured capacity", 8)
	fns := c.funcsOfPkgs(lv)
	checkGuardedBy(r, "C18.5", fns, []guardSpec{
		{Owner: "liveness.lruCache", Field: "ipCache", Mutex: "m"},
		{Owner: "liveness.mapCache", Field: "ipCache", Mutex: "m"},
	}, nil)
	if f := c.fn("C18.5", lv, "lruCache", "Add"); f != nil {
		var ins ssa.Instruction
		eachInstr(f, func(in ssa.Instruction) {
			if mu, ok := in.(*ssa.MapUpdate); ok && strings.HasSuffix(pathOf(mu.Map), ".ipCache") {
				ins = in
			}
		})
		isLruAdd := func(in ssa.Instruction) bool {
			call, ok := in.(*ssa.Call)
			return ok && strings.HasSuffix(calleeName(&call.Call), "golang-lru.Cache).Add") && pathOf(call.Call.Args[1]) == "key"
		}
		if ins == nil {
			r.Unk("C18.5", "lruCache.Add: map insert", f.Pos(), fnName(f), "not found")
		} else {
			esc, _ := reach(f, ins, isReturn, isLruAdd, nil)
			r.Check(!esc, "C18.5", "lruCache.Add: every map insert is followed by lru.Add(key)", ins.Pos(), fnName(f), "must-pass",
				"an entry can be inserted into the verdict map without being registered in the LRU: it is never evicted and the cache exceeds its capacity")
		}
	}
	// ... and so is every other insertion into the LRU cache's verdict map, wherever it is made
	for _, f := range fns {
		if f.Name() == "Add" || f.Signature.Recv() == nil || !strings.HasSuffix(typeShort(f.Signature.Recv().Type()), "liveness.lruCache") {
			continue
		}
		eachInstr(f, func(in ssa.Instruction) {
			mu, ok := in.(*ssa.MapUpdate)
			if !ok || !strings.HasSuffix(pathOf(mu.Map), ".ipCache") {
				return
			}
			kp := pathOf(mu.Key)
			isLruAdd := func(in2 ssa.Instruction) bool {
				call, ok := in2.(*ssa.Call)
				return ok && strings.HasSuffix(calleeName(&call.Call), "golang-lru.Cache).Add") && pathOf(call.Call.Args[1]) == kp
			}
			esc, w := reach(f, in, isReturn, isLruAdd, nil)
			if esc {
				r.Bad("C18.5", fnName(f)+": a map insert that is not registered with the LRU", in.Pos(), fnName(f),
					"an entry is put into the verdict map without lru.Add for its key: the LRU does not count it, never evicts it and the sweep cannot remove it - the cache grows past its configured capacity", r.blockPath(f, w)...)
			} else {
				r.OK("C18.5", fnName(f)+": map insert followed by lru.Add(key)", in.Pos(), "must-pass")
			}
		})
	}
	if f := c.fn("C18.5", lv, "", "newLRUCache"); f != nil {
		var nw *ssa.Call
		for _, call := range callsIn(f, func(n string, _ *ssa.CallCommon) bool { return strings.HasSuffix(n, "golang-lru.NewWithEvict") }) {
			nw = call.(*ssa.Call)
		}
		if nw == nil {
			r.Unk("C18.5", "newLRUCache: lru.NewWithEvict", f.Pos(), fnName(f), "not found")
		} else {
			sizeOK := strings.HasSuffix(pathOf(nw.Call.Args[0]), ".lruSize")
			// lruSize <- size parameter in the literal
			fromParam := false
			for _, st := range fieldStores(f, "liveness.lruCache", "lruSize") {
				if pathOf(st.Val) == "size" {
					fromParam = true
				}
			}
			r.Check(sizeOK && fromParam, "C18.5", "newLRUCache: LRU created with the configured size", nw.Pos(), fnName(f), pathOf(nw.Call.Args[0])+" <- size",
				"the LRU is not created with the configured capacity: the cache holds more entries than configured")
			// eviction callback
			cbOK := false
			if mc, ok := nw.Call.Args[1].(*ssa.MakeClosure); ok {
				cb := mc.Fn.(*ssa.Function)
				lf := analyseLocks(cb, lockSet{})
				eachInstr(cb, func(in ssa.Instruction) {
					if call, ok := in.(*ssa.Call); ok {
						if b, ok := call.Call.Value.(*ssa.Builtin); ok && b.Name() == "delete" && strings.HasSuffix(pathOf(call.Call.Args[0]), ".ipCache") {
							if _, held := realLocks(lf.Must[in]).holdsPath(strings.TrimSuffix(pathOf(call.Call.Args[0]), ".ipCache") + ".m"); held && dependsOn(call.Call.Args[1], cb.Params[0]) {
								cbOK = true
							}
						}
					}
				})
			}
			r.Check(cbOK, "C18.5", "newLRUCache: eviction callback deletes the evicted key from the verdict map under the lock", nw.Pos(), fnName(f), "delete(lc.ipCache, k) under lc.m",
				"evicted entries stay in the verdict map (or the wrong key is deleted): evicted entries are still served and the map is unbounded")
		}
	}
}
