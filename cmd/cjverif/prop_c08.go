package main

import (
	"sort"
	"fmt"
	"go/constant"
	"go/token"
	"go/types"
	"regexp"
	"strings"

	"golang.org/x/tools/go/ssa"
)

func init() {
	register("C08", &propCheck{Run: checkC08,
		Explain: "C08.1 every computed key of the timeout map depends on both components that key the registration map (phantom string and the transport's GetIdentifier) and all constructions have the same shape; " +
			"C08.2 insertion and removal touch both maps on the same paths, and the empty inner map is removed; " +
			"C08.3 finite predicate abstraction of the sweep loop body: a record is selected iff (unused && age>unusedTimeout) || age>activeTimeout; the two timeouts are initialised from the 10 min / 6 h package variables and have no other writer; " +
			"C08.4 activation stores `used` into the record found under the C08.1 key; the connection handler calls MarkActive; " +
			"C08.5 the sweeper runs RemoveOldRegistrations from a ticker loop. " +
			"Decides key discipline and the expiry condition form on all paths; not set-level behaviour over histories or timing.",
		Assume: []string{"time.Since is monotone; equality at the boundary instant is not distinguished", "GetIdentifier is a pure function of the registration (C01/C02)"}})
}

var reIdent = regexp.MustCompile(`[A-Za-z_][A-Za-z0-9_]*`)

func checkC08(c *Ctx) {
	r := c.R
	const owner = "lib.RegisteredDecoys"
	libFns := c.funcsOfPkgs("pkg/station/lib")

	// ---- C08.1 key agreement
	r.Rule("C08.1", "timeout-map keys are the same function of (phantom, transport identifier) that keys the registration map", 2)
	type keyUse struct {
		f   *ssa.Function
		in  ssa.Instruction
		key ssa.Value
	}
	var uses []keyUse
	for _, f := range libFns {
		eachInstr(f, func(in ssa.Instruction) {
			var m, k ssa.Value
			switch x := in.(type) {
			case *ssa.MapUpdate:
				m, k = x.Map, x.Key
			case *ssa.Lookup:
				m, k = x.X, x.Index
			case *ssa.Call:
				if b, isB := x.Call.Value.(*ssa.Builtin); isB && b.Name() == "delete" && len(x.Call.Args) == 2 {
					m, k = x.Call.Args[0], x.Call.Args[1]
				} else {
					return
				}
			default:
				return
			}
			u, ok := m.(*ssa.UnOp)
			if !ok {
				return
			}
			if o, fld, ok := fieldOwner(u.X); !ok || o != owner || fld != "decoysTimeouts" {
				return
			}
			if _, isParam := k.(*ssa.Parameter); isParam {
				return // key handed in by the sweeper (taken from the map itself)
			}
			if _, isExt := k.(*ssa.Extract); isExt {
				return // range key
			}
			uses = append(uses, keyUse{f, in, k})
		})
	}
	shapes := map[string][]string{}
	for _, u := range uses {
		hasIdent, hasPhantom := false, false
		var walk func(v ssa.Value, d int)
		seen := map[ssa.Value]bool{}
		walk = func(v ssa.Value, d int) {
			if v == nil || d > 30 || seen[v] {
				return
			}
			seen[v] = true
			if call, ok := v.(*ssa.Call); ok {
				if call.Call.IsInvoke() && call.Call.Method.Name() == "GetIdentifier" {
					hasIdent = true
				}
				if calleeName(&call.Call) == "(net.IP).String" && strings.HasSuffix(pathOf(call.Call.Args[0]), ".PhantomIp") {
					hasPhantom = true
				}
			}
			// through a key helper of the package (a function or method that builds / renders the key): what it
			// returns, and through a local struct: what was stored into it
			if call, ok := v.(*ssa.Call); ok {
				if h := helperCallee(u.f, &call.Call); h != nil {
					eachInstr(h, func(in2 ssa.Instruction) {
						if ret, ok := in2.(*ssa.Return); ok {
							for _, rv := range ret.Results {
								walk(rv, d+1)
							}
						}
					})
				}
			}
			if al, ok := v.(*ssa.Alloc); ok && al.Referrers() != nil {
				for _, ref := range *al.Referrers() {
					switch x := ref.(type) {
					case *ssa.Store:
						if x.Addr == ssa.Value(al) {
							walk(x.Val, d+1)
						}
					case *ssa.FieldAddr:
						if x.Referrers() != nil {
							for _, r2 := range *x.Referrers() {
								if st, ok := r2.(*ssa.Store); ok && st.Addr == ssa.Value(x) {
									walk(st.Val, d+1)
								}
							}
						}
					}
				}
			}
			if in, ok := v.(ssa.Instruction); ok {
				for _, op := range in.Operands(nil) {
					if *op != nil {
						walk(*op, d+1)
					}
				}
			}
		}
		walk(u.key, 0)
		construct := fnName(u.f) + ": decoysTimeouts key"
		if !hasIdent || !hasPhantom {
			missing := []string{}
			if !hasPhantom {
				missing = append(missing, "the phantom address")
			}
			if !hasIdent {
				missing = append(missing, "the transport identifier (GetIdentifier)")
			}
			r.Bad("C08.1", construct+" lacks "+strings.Join(missing, " and "), u.in.Pos(), fnName(u.f),
				"the registration map is keyed by phantom and transport identifier, but this timeout key "+firstN(pathOf(u.key), 100)+" does not depend on "+strings.Join(missing, " and ")+
					": two registrations that differ only there share one timeout record, so one of them is never swept (or the wrong one is activated)")
		} else {
			r.OK("C08.1", construct+" depends on phantom and identifier", u.in.Pos(), firstN(pathOf(u.key), 160))
		}
		// shape: path with the registration parameter name normalised (a key object held in a local reads as the
		// call that produced it)
		p := pathOf(u.key)
		if call, ok := u.key.(*ssa.Call); ok && len(call.Call.Args) > 0 {
			if ld, ok := call.Call.Args[0].(*ssa.UnOp); ok {
				if al, ok := ld.X.(*ssa.Alloc); ok && al.Referrers() != nil {
					var src ssa.Value
					n := 0
					for _, ref := range *al.Referrers() {
						if st, ok := ref.(*ssa.Store); ok && st.Addr == ssa.Value(al) {
							src = st.Val
							n++
						}
					}
					if n == 1 && strings.HasPrefix(p, pathOf(ld)+".") {
						p = pathOf(src) + strings.TrimPrefix(p, pathOf(ld))
					}
				}
			}
		}
		for _, prm := range u.f.Params {
			if strings.HasSuffix(typeShort(prm.Type()), "DecoyRegistration") {
				p = regexp.MustCompile(`\b`+regexp.QuoteMeta(pname(prm))+`\b`).ReplaceAllString(p, "$$reg")
			}
		}
		shapes[p] = append(shapes[p], fnName(u.f))
	}
	if len(uses) >= 2 {
		if len(shapes) == 1 {
			for s := range shapes {
				r.OK("C08.1", "all timeout-key constructions have one shape", token.NoPos, firstN(s, 200))
			}
		} else {
			var ss []string
			for s, fs := range shapes {
				ss = append(ss, strings.Join(fs, ",")+": "+firstN(s, 120))
			}
			sortStrings(ss)
			r.Bad("C08.1", "timeout-key constructions differ between insertion and lookup", token.NoPos, "", "track and markActive build the timeout key differently: activation cannot find the record that insertion created", ss...)
		}
	}

	// ---- C08.2 both-or-neither
	r.Rule("C08.2", "track and removeRegistration touch both maps on the same paths; empty inner map removed", 3)
	mapOps := func(f *ssa.Function, field string, wantDelete bool, inner bool) []ssa.Instruction {
		var out []ssa.Instruction
		eachInstr(f, func(in ssa.Instruction) {
			var m ssa.Value
			switch x := in.(type) {
			case *ssa.MapUpdate:
				if wantDelete {
					return
				}
				m = x.Map
			case *ssa.Call:
				b, ok := x.Call.Value.(*ssa.Builtin)
				if !ok || b.Name() != "delete" || !wantDelete {
					return
				}
				m = x.Call.Args[0]
			default:
				return
			}
			// direct field load, or (inner) a Lookup on the field load
			isField := func(v ssa.Value) bool {
				u, ok := v.(*ssa.UnOp)
				if !ok {
					return false
				}
				o, fld, ok := fieldOwner(u.X)
				return ok && o == owner && fld == field
			}
			if !inner && isField(m) {
				out = append(out, in)
			}
			if inner {
				v := m
				if ex, ok := v.(*ssa.Extract); ok {
					v = ex.Tuple
				}
				if lk, ok := v.(*ssa.Lookup); ok && isField(lk.X) {
					out = append(out, in)
				}
			}
		})
		return out
	}
	if f := c.fn("C08.2", "pkg/station/lib", "RegisteredDecoys", "track"); f != nil {
		ins := mapOps(f, "decoys", false, true)
		tos := mapOps(f, "decoysTimeouts", false, false)
		if len(ins) != 1 || len(tos) != 1 {
			r.Unk("C08.2", "track: one insert into each map", f.Pos(), fnName(f), fmt.Sprintf("found %d inner decoys inserts and %d decoysTimeouts inserts", len(ins), len(tos)))
		} else {
			a, _ := reach(f, ins[0], isReturn, isInstr(tos[0]), nil)
			b, _ := reach(f, nil, isInstr(tos[0]), isInstr(ins[0]), nil)
			r.Check(!a && !b, "C08.2", "track: registration insert and timeout insert lie on the same paths", ins[0].Pos(), fnName(f), "must-pass both ways",
				"a path inserts into one of the two maps without the other: a registration without a timeout record is never expired (or a record without registration makes the sweeper skip)")
		}
	}
	if f := c.fn("C08.2", "pkg/station/lib", "RegisteredDecoys", "removeRegistration"); f != nil {
		dt := mapOps(f, "decoysTimeouts", true, false)
		di := mapOps(f, "decoys", true, true)
		do := mapOps(f, "decoys", true, false)
		if len(dt) != 1 || len(di) != 1 {
			r.Unk("C08.2", "removeRegistration: one delete from each map", f.Pos(), fnName(f), fmt.Sprintf("found %d timeout deletes, %d inner deletes", len(dt), len(di)))
		} else {
			a, _ := reach(f, dt[0], isReturn, isInstr(di[0]), nil)
			b, _ := reach(f, nil, isInstr(di[0]), isInstr(dt[0]), nil)
			a2, _ := reach(f, di[0], isReturn, isInstr(dt[0]), nil)
			b2, _ := reach(f, nil, isInstr(dt[0]), isInstr(di[0]), nil)
			r.Check(!(b2 && a) && !(b && a2), "C08.2", "removeRegistration: both records are deleted on the same paths", dt[0].Pos(), fnName(f), "must-pass",
				"a path removes one record but keeps the other: the registration keeps matching connections after expiry or tracked state grows without bound")
			if len(do) == 1 {
				call := do[0].(*ssa.Call)
				keyp := pathOf(call.Call.Args[1])
				g := guardedM(f, do[0], func(cnd string, pol bool) bool {
					return pol && strings.HasPrefix(cnd, "(0 == len(") && strings.Contains(cnd, keyp)
				})
				after, _ := reach(f, di[0], isInstr(do[0]), nil, nil)
				r.Check(g && after, "C08.2", "removeRegistration: phantom entry deleted when its inner map is empty", do[0].Pos(), fnName(f), "guarded by len(inner)==0 after the inner delete",
					"the per-phantom map is not removed when it becomes empty (or is removed while non-empty): tracked state is not bounded by the registration rate, or live registrations vanish")
			} else {
				r.Bad("C08.2", "removeRegistration: empty phantom entry is not deleted", f.Pos(), fnName(f), "no delete(r.decoys, phantom) found: one empty map per phantom ever used stays allocated forever")
			}
		}
	}

	// ---- C08.3 expiry rule
	checkExpirySelection(c, "C08.3", 5)
	checkTimeoutWriters(c, "C08.3", owner)
	checkSweepAlwaysRuns(c, "C08.3")
	// ---- C08.10 "never early": nothing but the expiry sweep takes a registration out of the tables (a cap that evicts,
	// a replacement that drops the old entry) - shared with C09.14
	checkTableDeletes(c, "C08.10")
	// ---- C08.11 the two tables are the same two maps for the life of the station: they are assigned where the registry is
	// constructed and nowhere else (a "compacted" copy swapped in later loses every record added while it was being built -
	// such a registration stays matchable and is never swept)
	checkTablesNeverReplaced(c, "C08.11")

	checkRemovalUnconditional(c, "C08.7")
	checkExpiryClock(c, "C08.8")
	// ---- C08.9 a registration that carried a connection is kept for the active lifetime: the mark is unconditional
	checkMarkUnconditional(c, "C08.9", 1)

	// ---- C08.6 an expired registration stops matching: lookups are computed from the live table on every call
	checkLiveLookup(c, "C08.6", "removeRegistration deletes from r.decoys, so a registration that has expired is still handed to connection matching until that stored set is rebuilt")

	// ---- C08.4 activation
	r.Rule("C08.4", "markActive flips the record found under the C08.1 key to used; the connection handler calls MarkActive on match", 2)
	checkMarkOwnRecord(c, "C08.4")
	if f := c.fn("C08.4", "cmd/application", "connManager", "handleNewTCPConn"); f != nil {
		calls := callsIn(f, shortIs("MarkActive"))
		r.Check(len(calls) >= 1, "C08.4", "handleNewTCPConn: calls MarkActive", f.Pos(), fnName(f), fmt.Sprintf("%d call(s)", len(calls)), "a matched connection no longer marks its registration used")
		// ... when the connection is matched, not when it ends: a session can outlive the unused lifetime
		marks := map[ssa.Instruction]bool{}
		for _, ci := range calls {
			if _, isCall := ci.(*ssa.Call); isCall {
				marks[ci.(ssa.Instruction)] = true
			}
		}
		for _, l := range findDeep(f, func(n string, _ *ssa.CallCommon) bool { return strings.HasSuffix(n, "station/lib.Proxy") }, 2) {
			site := l.site()
			skip, w := reach(f, nil, isInstr(site), inSet(marks), nil)
			if skip {
				r.Bad("C08.4", "handleNewTCPConn: the relay starts before the registration is marked used", site.Pos(), fnName(f),
					"Proxy is reachable without a completed MarkActive call (a deferred one runs when the session ends): while its first session is open the registration is still 'unused' and the sweep removes it after 10 minutes although it is carrying a connection", r.blockPath(f, w)...)
			} else {
				r.OK("C08.4", "handleNewTCPConn: MarkActive completes before the relay starts", site.Pos(), "must-pass call before Proxy")
			}
		}
	}

	// ---- C08.5 sweeper
	r.Rule("C08.5", "RemoveOldRegistrations runs from a ticker loop started by main", 1)
	if mainFn := c.fn("C08.5", "cmd/application", "", "main"); mainFn != nil {
		found := false
		gs := goStarted(mainFn)
		var cands []*ssa.Function
		cands = append(cands, mainFn.AnonFuncs...)
		for fn := range gs {
			if fn.Parent() == nil {
				cands = append(cands, fn)
			}
		}
		sort.Slice(cands, func(i, j int) bool { return cands[i].Pos() < cands[j].Pos() })
		for _, a := range cands {
			for _, call := range callsIn(a, shortIs("RemoveOldRegistrations")) {
				found = true
				inLoop, _ := reach(a, call.(ssa.Instruction), isInstr(call.(ssa.Instruction)), nil, nil)
				started := gs[a] != nil
				period := ""
				eachInstr(a, func(in ssa.Instruction) {
					if tc, ok := in.(*ssa.Call); ok && calleeName(&tc.Call) == "time.NewTicker" {
						if cv, ok := constOf(tc.Call.Args[0]); ok {
							period = cv.ExactString()
						}
					}
				})
				pOK := false
				if period != "" {
					if v, ok := constant.Int64Val(constant.MakeFromLiteral(period, token.INT, 0)); ok && v > 0 && v <= 600000000000 {
						pOK = true
					}
				}
				r.Check(inLoop && started && pOK, "C08.5", "main: sweeper goroutine loops on a ticker (period "+period+" ns)", call.Pos(), fnName(a),
					"go statement + loop + constant ticker period in (0, 10 min]", "the expiry sweep is not run periodically from a started goroutine (or its period is not a positive constant of at most the unused lifetime): expired registrations keep matching")
			}
		}
		if !found {
			r.Bad("C08.5", "main: no sweeper calls RemoveOldRegistrations", mainFn.Pos(), fnName(mainFn), "nothing ever expires registrations")
		}
	}
}

// constIntOf returns the exact string of a package-level integer constant.
func constIntOf(p *Program, pkg, name string) string {
	pk := p.All[pkg]
	if pk == nil {
		return ""
	}
	if c, ok := pk.Types.Scope().Lookup(name).(*types.Const); ok {
		return c.Val().ExactString()
	}
	return ""
}

// globalInitConst returns the constant stored into package variable `name` by the package initialiser.
func globalInitConst(p *Program, pkg, name string) (string, bool) {
	sp := p.SSAPkgs[pkg]
	if sp == nil {
		return "", false
	}
	initFn := sp.Func("init")
	if initFn == nil {
		return "", false
	}
	val, n := "", 0
	eachInstr(initFn, func(in ssa.Instruction) {
		if st, ok := in.(*ssa.Store); ok {
			if g, ok := st.Addr.(*ssa.Global); ok && g.Name() == name {
				n++
				if cv, ok := constOf(st.Val); ok {
					val = cv.ExactString()
				}
			}
		}
	})
	return val, n == 1 && val != ""
}

// splitLt splits a canonical "(A < B)" at its top-level " < ".
func splitLt(cnd string) (string, string, bool) {
	if len(cnd) < 2 || cnd[0] != '(' || cnd[len(cnd)-1] != ')' {
		return "", "", false
	}
	in := cnd[1 : len(cnd)-1]
	depth := 0
	for i := 0; i+3 <= len(in); i++ {
		switch in[i] {
		case '(', '[':
			depth++
		case ')', ']':
			depth--
		}
		if depth == 0 && strings.HasPrefix(in[i:], " < ") {
			return in[:i], in[i+3:], true
		}
	}
	return "", "", false
}

// balancedCall: x is a single call expression f(...) whose last ')' closes the first '('.
func balancedCall(x string) bool {
	i := strings.Index(x, "(")
	if i < 0 {
		return false
	}
	// allow "time.Now().Sub(" prefix: find the last top-level opening
	depth := 0
	for k := 0; k < len(x); k++ {
		switch x[k] {
		case '(':
			depth++
		case ')':
			depth--
			if depth == 0 && k != len(x)-1 {
				// closed before the end: only acceptable for the "time.Now()" prefix
				if !strings.HasPrefix(x, "time.Now().Sub(") || k != len("time.Now()")-1 {
					return false
				}
			}
		}
	}
	return depth == 0
}

// checkTimeoutWriters: the lifetime constants are 10 min / 6 h, the expiry fields are initialised from them in the
// constructor and nothing else can write them (no other store, no escaping address, no run-time write of the variables).
// Shared by C08.3 (expiry schedule) and C10.2 (the detector is asked for the lifetime the station enforces).
func checkTimeoutWriters(c *Ctx, rule, owner string) {
	r := c.R
	// constants and initialisation
	for _, kv := range [][3]string{{"defaultUnusedTimeout", "600000000000", "timeoutUnused"}, {"defaultActiveTimeout", "21600000000000", "timeoutActive"}} {
		val, ok := globalInitConst(c.P, repoMod+"/pkg/station/lib", kv[0])
		r.Check(ok && val == kv[1], rule, kv[0]+" == "+kv[1]+"ns", token.NoPos, "", "package initialiser value "+val,
			"the lifetime constant "+kv[0]+" is "+val+" ns, the property states "+kv[1]+" ns (10 min unused / 6 h active)")
		// writers of the field
		nInit := 0
		for _, f := range c.P.RepoFuncs() {
			for _, st := range fieldStores(f, owner, kv[2]) {
				src := pathOf(st.Val)
				if src == "lib."+kv[0] && strings.HasSuffix(fnName(f), "NewRegisteredDecoys") {
					nInit++
					r.OK(rule, "NewRegisteredDecoys: "+kv[2]+" <- "+kv[0], st.Pos(), "constructor initialisation")
				} else {
					r.Bad(rule, fnName(f)+": "+kv[2]+" <- "+firstN(src, 60), st.Pos(), fnName(f),
						"the expiry timeout is set from something other than "+kv[0]+": the station expires on a different schedule than it announces to the detector")
				}
			}
			for _, esc := range fieldAddrEscapes(f, owner, kv[2]) {
				r.Bad(rule, fnName(f)+": address of "+kv[2]+" escapes", esc.Pos(), fnName(f),
					"the address of the expiry timeout is taken and passed on ("+firstN(esc.String(), 60)+"): it can be written through that pointer, so the station may expire on a different schedule than "+kv[0]+", which is what it announces to the detector")
			}
			// writers of the package variable itself
			eachInstr(f, func(in ssa.Instruction) {
				if st, ok := in.(*ssa.Store); ok {
					if g, ok := st.Addr.(*ssa.Global); ok && g.Name() == kv[0] && f.Name() != "init" {
						r.Bad(rule, fnName(f)+": writes "+kv[0], st.Pos(), fnName(f), "the lifetime variable is modified at run time")
					}
				}
			})
		}
		if nInit == 0 {
			r.Unk(rule, "NewRegisteredDecoys initialises "+kv[2], token.NoPos, "", "no store "+kv[2]+" <- "+kv[0]+" found in the constructor")
		}
	}

}

// checkRemovalUnconditional: what the sweep selected is removed - the only things that may keep removeRegistration
// from deleting the record are "record / registration not found" tests; every other condition is played by an
// adversary (reachAgainst). Shared by C08.7 (expiry) and C02.7 (an expired registration no longer matches).
// checkExpirySelection: the sweep's selection - every sweep examines every record and selects exactly those the expiry
// condition names. Shared by C08.3 and C02.8 (an expired registration that a sweep leaves behind keeps matching
// genuine first flights).
func checkExpirySelection(c *Ctx, rule string, minInstances int) {
	r := c.R
	r.Rule(rule, "expiry condition is (unused && age>unused-timeout) || age>active-timeout with 10 min / 6 h; every sweep examines every record", minInstances)
	if f := c.fn(rule, "pkg/station/lib", "RegisteredDecoys", "getExpiredRegistrations"); f != nil {
		// loop body = block after the range `next` test; header = the block holding `next`
		var header *ssa.BasicBlock
		for _, b := range f.Blocks {
			for _, in := range b.Instrs {
				if nx, ok := in.(*ssa.Next); ok {
					if rg, ok := nx.Iter.(*ssa.Range); ok && strings.HasSuffix(pathOf(rg.X), ".decoysTimeouts") {
						header = b
					}
				}
			}
		}
		if header == nil || len(header.Succs) != 2 {
			r.Unk(rule, "getExpiredRegistrations: range over decoysTimeouts", f.Pos(), fnName(f), "loop over the timeout map not found")
		} else {
			// every sweep examines every record: no return is reachable without entering the loop header
			skip, w := reach(f, nil, isReturn, func(in ssa.Instruction) bool { return in.Block() == header }, nil)
			if skip {
				r.Bad(rule, "getExpiredRegistrations: a sweep can return without examining the records", f.Pos(), fnName(f),
					"a path returns before the loop over the timeout records: on such sweeps expired registrations are kept (they keep matching connections and tracked state is no longer bounded by the registration rate)", r.blockPath(f, w)...)
			} else {
				r.OK(rule, "getExpiredRegistrations: every sweep iterates over all timeout records", f.Pos(), "no return reachable without passing the loop header")
			}
			body := header.Succs[0]
			unusedVal := constIntOf(c.P, repoMod+"/pkg/station/lib", "regStatusUnused")
			classify := func(cnd string) (string, bool, bool) {
				switch {
				case strings.Contains(cnd, ".status") && strings.Contains(cnd, " == "):
					// "(K == X.status)"
					m := regexp.MustCompile(`^\((\d+) == .*\.status\)$`).FindStringSubmatch(cnd)
					if m == nil {
						return "", false, false
					}
					return "unused", m[1] == unusedVal, true
				default:
					// the age is compared with the timeout field itself (not a derived value):
					// "(r.timeoutX < age)" => age > T ; "(age < r.timeoutX)" => !(age >= T)
					l, rr, ok := splitLt(cnd)
					if !ok {
						return "", false, false
					}
					isAge := func(x string) bool {
						return (strings.HasPrefix(x, "time.Since(") || strings.HasPrefix(x, "time.Now().Sub(")) && strings.HasSuffix(x, ".registrationTime)") && balancedCall(x)
					}
					fld := regexp.MustCompile(`^[A-Za-z_][A-Za-z0-9_]*\.(timeoutUnused|timeoutActive)$`)
					names := map[string]string{"timeoutUnused": "ageGtUnused", "timeoutActive": "ageGtActive"}
					if m := fld.FindStringSubmatch(l); m != nil && isAge(rr) {
						return names[m[1]], true, true
					}
					if m := fld.FindStringSubmatch(rr); m != nil && isAge(l) {
						return names[m[1]], false, true
					}
				}
				return "", false, false
			}
			outcome := func(in ssa.Instruction, b *ssa.BasicBlock, idx int, _ *ssa.BasicBlock, _ map[string]bool) string {
				if b == header && idx == 0 {
					return "keep"
				}
				if call, ok := in.(*ssa.Call); ok {
					if bi, ok := call.Call.Value.(*ssa.Builtin); ok && bi.Name() == "append" {
						return "expire"
					}
				}
				return ""
			}
			res, err := condForm(f, body, 0, classify, outcome, 8)
			if err != nil {
				r.Unk(rule, "getExpiredRegistrations: expiry condition", body.Instrs[0].Pos(), fnName(f), err.Error())
			} else {
				diffs := res.compare(func(v map[string]bool) string {
					if (v["unused"] && v["ageGtUnused"]) || v["ageGtActive"] {
						return "expire"
					}
					return "keep"
				})
				for _, need := range []string{"unused", "ageGtUnused", "ageGtActive"} {
					has := false
					for _, a := range res.Atoms {
						if a == need {
							has = true
						}
					}
					if !has {
						diffs = append(diffs, "the sweep never tests "+need)
					}
				}
				if len(diffs) > 0 {
					r.Bad(rule, "getExpiredRegistrations: expiry condition differs from (unused && age>10min) || age>6h", f.Pos(), fnName(f),
						"the sweep selects a different set than the property states: registrations expire early or are kept past their lifetime", diffs...)
				} else {
					r.OK(rule, "getExpiredRegistrations: expire iff (unused && age>timeoutUnused) || age>timeoutActive", f.Pos(), fmt.Sprintf("truth table over atoms %v, %d valuations", res.Atoms, len(res.Table)))
				}
			}
			// the appended value is the loop key
			eachInstr(f, func(in ssa.Instruction) {
				if call, ok := in.(*ssa.Call); ok {
					if bi, ok := call.Call.Value.(*ssa.Builtin); ok && bi.Name() == "append" {
						okk := strings.Contains(pathOf(call.Call.Args[1]), "") // varargs slice; check store of range key below
						_ = okk
					}
				}
			})
		}
	}
}

func checkRemovalUnconditional(c *Ctx, rule string) {
	r := c.R
	// ---- C08.7 what the sweep selected is removed: the only things that may keep removeRegistration from deleting the
	// record are "record / registration not found" tests; every other condition is played by an adversary
	r.Rule(rule, "removeRegistration deletes the selected record from both maps whatever else holds (only 'not found' may stop it)", 2)
	if f := c.fn(rule, "pkg/station/lib", "RegisteredDecoys", "removeRegistration"); f != nil {
		n := 0
		eachInstr(f, func(in ssa.Instruction) {
			call, ok := in.(*ssa.Call)
			if !ok {
				return
			}
			b, isB := call.Call.Value.(*ssa.Builtin)
			if !isB || b.Name() != "delete" {
				return
			}
			mp := pathOf(call.Call.Args[0])
			if !(strings.HasSuffix(mp, ".decoysTimeouts") || strings.Contains(mp, ".decoys[")) {
				return
			}
			n++
			var extra []string
			okk := reachGame(f, in, func(bl *ssa.BasicBlock) int {
				iff, ok := bl.Instrs[len(bl.Instrs)-1].(*ssa.If)
				if !ok {
					return gameAny
				}
				cnd, pol := normCond(iff.Cond)
				// found-tests of the two table lookups: the removal must go through the FOUND outcome
				if strings.HasSuffix(cnd, "]#1") {
					if pol {
						return gameSucc0
					}
					return gameSucc1
				}
				if strings.Contains(cnd, "nil") && (strings.Contains(cnd, ".decoysTimeouts[") || strings.Contains(cnd, ".decoys[")) {
					// cnd is "(nil == X)": found means the equality is false
					if pol {
						return gameSucc1
					}
					return gameSucc0
				}
				if hit, _ := reachAt(f, bl, isInstr(in), nil, nil); !hit {
					return gameAny
				}
				extra = append(extra, cnd)
				return gameAll
			})
			r.Check(okk, rule, "removeRegistration: delete from "+firstN(mp, 50)+" happens for every selected record", in.Pos(), fnName(f), "reachable whatever the outcome of every condition other than the found-tests",
				"a record that the sweep selected as expired is not removed if a further condition goes the wrong way ("+firstN(strings.Join(uniq(sortedCopy(extra)), ", "), 120)+"): the registration stays tracked and keeps matching connections past its lifetime")
		})
		if n < 2 {
			r.Unk(rule, "removeRegistration: deletes", f.Pos(), fnName(f), fmt.Sprintf("found %d delete(s) on the two tables, expected 2", n))
		}
	}

}

// checkLiveLookup: the set of registrations handed to connection matching is computed from the live table on every
// call; a memoised set survives removals, expiry and validity changes (shared by C08.6 and C04.10).
func checkLiveLookup(c *Ctx, rule, why string) {
	r := c.R
	r.Rule(rule, "connection lookups are computed from the live registration table on every call (no memoised set survives a removal)", 1)
	if f := c.fn(rule, "pkg/station/lib", "RegisteredDecoys", "getRegistrations"); f != nil {
		n := 0
		eachInstr(f, func(in ssa.Instruction) {
			ret, ok := in.(*ssa.Return)
			if !ok || len(ret.Results) == 0 || in.Block().Comment == "recover" {
				return
			}
			n++
			rv := returnedValue(ret, 0, nil)
			fresh := false
			var chk func(v ssa.Value, d int) bool
			chk = func(v ssa.Value, d int) bool {
				if d > 6 {
					return false
				}
				switch x := v.(type) {
				case *ssa.MakeMap:
					return true
				case *ssa.Phi:
					for _, e := range x.Edges {
						if !chk(e, d+1) {
							return false
						}
					}
					return len(x.Edges) > 0
				}
				return false
			}
			fresh = chk(rv, 0)
			r.Check(fresh, rule, "getRegistrations: the returned set is built in this call", in.Pos(), fnName(f), "make(map) in the same call",
				"getRegistrations returns "+firstN(pathOf(rv), 60)+", a stored set: "+why)
		})
		if n == 0 {
			r.Unk(rule, "getRegistrations: returns", f.Pos(), fnName(f), "no return found")
		}
	}
}

// checkMarkOwnRecord (C08.4, C02.14): activation stores `used` into the timeout record found under the matched
// registration's own (phantom, identifier) key - and into no other record.
func checkMarkOwnRecord(c *Ctx, rule string) {
	r := c.R
	if f := c.fn(rule, "pkg/station/lib", "RegisteredDecoys", "markActive"); f != nil {
		usedVal := constIntOf(c.P, repoMod+"/pkg/station/lib", "regStatusUsed")
		n := 0
		for _, st := range fieldStores(f, "lib.DecoyTimeout", "status") {
			n++
			cv, isC := constOf(st.Val)
			base := st.Addr.(*ssa.FieldAddr).X
			fromLookup := false
			if ex, ok := base.(*ssa.Extract); ok {
				if lk, ok := ex.Tuple.(*ssa.Lookup); ok && strings.HasSuffix(pathOf(lk.X), ".decoysTimeouts") {
					fromLookup = true
				}
			}
			if lk, ok := base.(*ssa.Lookup); ok && strings.HasSuffix(pathOf(lk.X), ".decoysTimeouts") {
				fromLookup = true
			}
			// ... under the key of the registration that was matched: its own phantom and its own identifier (a match on
			// one phantom says nothing about the session's registrations on other phantoms)
			ownKey := false
			if fromLookup && len(f.Params) >= 2 {
				var lk *ssa.Lookup
				if ex, ok := base.(*ssa.Extract); ok {
					lk, _ = ex.Tuple.(*ssa.Lookup)
				} else {
					lk, _ = base.(*ssa.Lookup)
				}
				d := f.Params[len(f.Params)-1]
				hasPh, hasID := false, false
				eachInstr(f, func(in ssa.Instruction) {
					call, ok := in.(*ssa.Call)
					if !ok || lk == nil {
						return
					}
					if calleeName(&call.Call) == "(net.IP).String" && pathOf(call.Call.Args[0]) == pname(d)+".PhantomIp" && (ssa.Value(call) == lk.Index || dependsOn(lk.Index, call)) {
						hasPh = true
					}
					if call.Call.IsInvoke() && call.Call.Method.Name() == "GetIdentifier" && len(call.Call.Args) == 1 && stripConv(call.Call.Args[0]) == ssa.Value(d) && (ssa.Value(call) == lk.Index || dependsOn(lk.Index, call)) {
						hasID = true
					}
				})
				ownKey = hasPh && hasID
			}
			r.Check(isC && cv.ExactString() == usedVal && fromLookup && ownKey, rule, "markActive: status = regStatusUsed on the looked-up record", st.Pos(), fnName(f), "store of "+usedVal+" into "+firstN(pathOf(st.Addr), 100)+" (key built from the matched registration's phantom and identifier)",
				"activation stores `used` into a record that is not the one found under the matched registration's own (phantom, identifier) key: an active registration is expired after 10 minutes, or a registration that never carried a connection is kept (and keeps matching) for 6 hours")
		}
		if n == 0 {
			r.Bad(rule, "markActive: no store to DecoyTimeout.status", f.Pos(), fnName(f), "activation never flips the record: every registration expires after 10 minutes even while carrying connections")
		}
	}
	// no other function of the package flips a record to used
	usedV := constIntOf(c.P, repoMod+"/pkg/station/lib", "regStatusUsed")
	for _, g := range c.funcsOfPkgs("pkg/station/lib") {
		if g.Name() == "markActive" {
			continue
		}
		for _, st := range fieldStores(g, "lib.DecoyTimeout", "status") {
			if cv, isC := constOf(st.Val); isC && cv.ExactString() == usedV {
				// a setter that markActive hands the record it looked up to is markActive's own store
				if fa, ok := st.Addr.(*ssa.FieldAddr); ok && onlyCalledFrom(g, "markActive", 1) {
					if _, isP := fa.X.(*ssa.Parameter); isP {
						continue
					}
				}
				r.Bad(rule, fnName(g)+": stores regStatusUsed into a timeout record", st.Pos(), fnName(g), "a record is flipped to used outside markActive: a registration that carried no connection is kept (and keeps matching) for the active lifetime")
			}
		}
	}
}

// checkSweepAlwaysRuns (C08.3): every call of the sweep entry point selects the expired records and removes each of
// them - no state of an earlier sweep (a "sweep in progress" flag, a rate limit, a remembered result) can make a
// sweep return without looking. The selection call and the removal loop are reached whatever any condition says.
func checkSweepAlwaysRuns(c *Ctx, rule string) {
	r := c.R
	root := c.fn(rule, "pkg/station/lib", "RegistrationManager", "RemoveOldRegistrations")
	if root == nil {
		return
	}
	sel, ok := findOneDeep(root, shortIs("getExpiredRegistrations"))
	if !ok {
		r.Unk(rule, "RemoveOldRegistrations: selection of the expired records", root.Pos(), fnName(root), "no call of getExpiredRegistrations reachable from the sweep entry point")
		return
	}
	okk := true
	var where []string
	for k := 0; k <= len(sel.chain); k++ {
		f, in := sel.level(k)
		if !unconditional(f, in) {
			okk = false
			where = append(where, fnName(f))
		}
	}
	r.Check(okk, rule, "RemoveOldRegistrations: every sweep selects the expired records", sel.call.Pos(), fnName(sel.in), "getExpiredRegistrations is reached on every path from the sweep entry point",
		"a sweep can return without selecting the expired records (a condition in "+strings.Join(where, ", ")+" skips it): if that condition sticks - a guard flag that an early return leaves set - expired registrations are never removed, keep matching connections, and the tables grow without bound")
	// every selected record is handed to removeRegistration: the removal sits in a range loop over the selection that
	// is entered on every path after the selection
	rm, ok := findOneDeep(root, shortIs("removeRegistration"))
	if !ok {
		r.Unk(rule, "RemoveOldRegistrations: removal of the selected records", root.Pos(), fnName(root), "no call of removeRegistration reachable from the sweep entry point")
		return
	}
	f := rm.in
	var loopHead *ssa.BasicBlock
	// the block that tests the range index (dominates the removal, has the removal's block in a cycle)
	for b := rm.call.Block(); b != nil; b = b.Idom() {
		if _, isIf := b.Instrs[len(b.Instrs)-1].(*ssa.If); isIf && strings.HasPrefix(b.Comment, "rangeindex.loop") {
			loopHead = b
			break
		}
	}
	if loopHead == nil {
		r.Unk(rule, "RemoveOldRegistrations: removal loop", rm.call.Pos(), fnName(f), "removeRegistration is not called from a range loop over the selection")
		return
	}
	// (an early return for an empty selection skips nothing)
	entered := reachGame(f, loopHead.Instrs[0], func(bl *ssa.BasicBlock) int {
		iff, ok := bl.Instrs[len(bl.Instrs)-1].(*ssa.If)
		if !ok {
			return gameAny
		}
		if cnd, _ := normCond(iff.Cond); strings.Contains(cnd, "len(") && strings.Contains(cnd, "getExpiredRegistrations()") {
			return gameAny
		}
		if hit, _ := reachAt(f, bl, isInstr(loopHead.Instrs[0]), nil, nil); !hit {
			return gameAny
		}
		return gameAll
	})
	// inside the loop: the removal is reached on every iteration
	inLoop := reachGameFrom(f, loopHead.Succs[0], rm.call, func(bl *ssa.BasicBlock) int { return gameAll })
	r.Check(entered && inLoop, rule, "RemoveOldRegistrations: every selected record is removed", rm.call.Pos(), fnName(f), "the range loop over the selection is entered on every path and calls removeRegistration on every iteration",
		"a selected (expired) record can be skipped by the sweep: it stays tracked and keeps matching connections past its lifetime")
}

// goStarted returns the functions that f starts with a go statement - closures and named functions of its package -
// with the go instruction that starts each.
func goStarted(f *ssa.Function) map[*ssa.Function]*ssa.Go {
	out := map[*ssa.Function]*ssa.Go{}
	eachInstr(f, func(in ssa.Instruction) {
		g, ok := in.(*ssa.Go)
		if !ok {
			return
		}
		if mc, ok := g.Call.Value.(*ssa.MakeClosure); ok {
			if fn, ok := mc.Fn.(*ssa.Function); ok {
				out[fn] = g
			}
			return
		}
		if fn, ok := g.Call.Value.(*ssa.Function); ok && fn.Blocks != nil {
			out[fn] = g
			return
		}
		if fn := g.Call.StaticCallee(); fn != nil && fn.Blocks != nil && fn.Package() == f.Package() {
			out[fn] = g
		}
	})
	return out
}

// checkTablesNeverReplaced (C08.11, C09.19)
func checkTablesNeverReplaced(c *Ctx, rule string) {
	r := c.R
	r.Rule(rule, "the registration tables are assigned only where the registry is constructed", 2)
	n := 0
	for _, f := range c.funcsOfPkgs("pkg/station/lib") {
		for _, fld := range []string{"decoys", "decoysTimeouts"} {
			for _, st := range fieldStores(f, "lib.RegisteredDecoys", fld) {
				n++
				r.Check(freshRoot(st.Addr, f), rule, fnName(f)+": assigns RegisteredDecoys."+fld, st.Pos(), fnName(f), "on an object under construction",
					"the table "+fld+" of the live registry is replaced by another map: records that other goroutines add to the old map between the copy and the swap are lost - registrations without a timeout record keep matching connections and are never removed")
			}
		}
	}
	if n == 0 {
		r.Unk(rule, "assignments of the registration tables", token.NoPos, "", "none found (not even in the constructor)")
	}
}
