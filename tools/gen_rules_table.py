#!/usr/bin/env python3
# Regenerates the rule table of DESIGN.md section 10.2 from the evidence files the checks wrote
# (coverage.rules: rule id, requirement, frozen minimum instance count, instances on today's tree).
import json, glob, re, sys
rows = []
def key(r):
    m = re.match(r'C(\d+)\.(\d+)(\w*)', r)
    return (int(m.group(1)), int(m.group(2)), m.group(3))
for f in sorted(glob.glob('/verif/evidence/C[0-9][0-9].json')):
    e = json.load(open(f))
    for rid, r in e['coverage']['rules'].items():
        rows.append((rid, r['doc'], r['min_instances'], r['instances']))
rows.sort(key=lambda x: key(x[0]))
out = ['| rule | requirement | min | today |', '|---|---|---|---|']
for rid, doc, mn, inst in rows:
    out.append('| %s | %s | %d | %d |' % (rid, doc.replace('|', '\\|'), mn, inst))
table = '\n'.join(out)
p = '/verif/DESIGN.md'
s = open(p).read()
a = s.index('| rule | requirement | min |')
b = s.index('\n\n', a)
s = s[:a] + table + s[b:]
open(p, 'w').write(s)
print(len(rows), 'rules')
