#!/usr/bin/env python3
"""Generates /verif/MANIFEST.json from the table below (kept in one place so the
manifest stays valid while checks are added). Run: python3 tools/gen_manifest.py"""
import json, os, sys

HERE = os.path.dirname(os.path.dirname(os.path.abspath(__file__)))

NOTE = ("Trusted base: go/types + go/ssa (x/tools v0.29.0) as a faithful model of the compiled program; "
        "the rule tables in cmd/cjverif/prop_*.go (confirmed by reading the code); dependency code is unanalysed. "
        "Decides structural necessary conditions of the property on every path of the current source, not the value-level behaviour.")

# id -> (built?, technique, level text, design_ref, reason-if-not-built)
P = {
 "C01": (True, "constant propagation of derivation labels into a per-package published table, pinned wire constants and port ranges compared across the station/client sibling implementations, dominance-ordered draw sequences from each derivation stream, version-dispatch guard dominance and argument value-flow (go/ssa, go/types)",
         "Decides the structural ingredients of the derivation, for every input: every HKDF salt/info and HMAC label in the derivation packages is a compile-time string and equals the published table (so client and station share it, and it cannot move on both sides together); tags are keyed by the shared secret; version thresholds 1/2/3/4 and every private copy, the 104-byte legacy pre-draw (station only, gated by libver<4), the 16-byte seed, per-transport port ranges and fixed ports (prefix table included, client table derived entry-by-entry from the station table) have their published values on both sides; "
         "each phantom/port label has one derivation site, reached by both the station selector and the client entry with their own seed, subnet group chosen before the family filter, version dispatch exactly at the core thresholds; station and registration server feed Select / port selection from the registration's own seed, generation, version, family; the draw order from every derivation stream (shared keys, obfs4 keys, DTLS certificates and their roles) is the published one and the transport stream is consumed once; the 443 fallback holds for libver<3 or non-randomising subnets. "
         "These are necessary conditions: the big-integer arithmetic of the weighted subnet / address choice, the legacy varint and math-rand selectors, and byte-level equality of outputs are NOT decided (they need execution). Also decided: the keys (and with them the stateful transport stream) of one GenSharedKeys call go to at most one registration, and the selection code reachable from both entry points touches no process-global state and never writes into its inputs.",
         "4/C01"),
 "C02": (True, "guard dominance on the visibility filter and on each transport's success return, value-flow of the phantom argument through helper call sites, who-may-write (Valid), constant-label table (go/ssa)",
         "Decides for every input and history: connection matching can only see registrations whose own Valid flag is set, taken from the per-phantom map of the connection's original destination (through every helper, by value-flow of the phantom parameter from the socket's original destination); "
         "each transport's success is dominated by its identity checks — min: the map element under the presented 32-byte tag with found==true; prefix: transport type == Prefix and registered prefix id == matched prefix on the typed path, keyed by the tag revealed with a station key; obfs4: the registration whose keys produced the matching mark; "
         "Valid is set true only inside register (reached only from AddRegistration) and false only when tracking; identifier labels are constant, distinct and keyed by the shared secret. Cryptographic unforgeability and expiry (C08) are not decided. Also decided: removeRegistration deletes a record the sweep selected from both tables whatever else holds (only the not-found outcome of the lookups may stop it), so an expired registration cannot keep matching.",
         "4/C02"),
 "C03": (True, "connection-effect (who-may-touch) rule over all uses of the connection value, must-pass 'wait out the deadline' on every exit, interval evaluation of the deadline, guard dominance on transport thresholds (go/ssa)",
         "Decides for every input and pacing: before a positive match no code path in the handler or in any WrapConnection implementation (computed from the interface) can write to, close, re-deadline or hand away the client connection — its only uses are observers, SetDeadline, Read, drain into io.Discard and the offer to WrapConnection; the wrapped connection is only returned with a nil error or, for obfs4, handed to the handshake after the mark matched; "
         "every return after the deadline was set is preceded on all paths by a drain to the deadline, a sleep until it, a read error or Proxy; the deadline precedes the first read and is now+d with d in [5 s,10 s) by interval evaluation; obfs4 says not-transport only at 8192 bytes; the loop removes a transport only on ErrNotTransport. "
         "Wall-clock behaviour, the vendored obfs4 handshake after a mark match and kernel-level ACKs are not decided. Also decided: the deadline of an unidentified connection is set exactly once, and before identification every wrapping transport can return only ErrTryAgain / ErrNotTransport (possibly wrapped) or an error class of the reviewed per-transport table (error-class analysis over returns, %w wrapping, repository callees and interface implementations).",
         "4/C03"),
 "C04": (True, "who-may-mutate over the receive buffer, must-pass append, buffer-effect summaries with path-sensitive reachability to retry errors, constant evaluation of the prefix table (AST + go/types), value-flow of the wrapped connection (go/ssa)",
         "Decides for every segmentation: the handler's receive buffer is append-only (Write(buf[:n]) of the same read, must-pass before transports are consulted, no other mutator or escape) and the same buffer is offered each time; in every WrapConnection implementation and its callees no path that consumed from or wrote to the buffer can return ErrTryAgain/ErrNotTransport (callee summaries 'mutates only when returning nil'); "
         "every default prefix satisfies Offset == len(StaticMatch) and MinLen == MaxLen == Offset + tag, tag slices are dominated by the matching length tests and exactly prefix+tag is consumed; success returns PrependToConn(conn, data) which reads buffered bytes first, PrefixConn overrides only Read; a match clears the deadline on the wrapped connection, marks the returned registration active and hands the wrapped connection to Proxy. "
         "Byte-exact delivery under concrete segmentations and obfs4's own framing are not decided. Also decided: the classification read is a plain Read (no per-call minimum such as io.ReadAtLeast / ReadFull / bufio) and every connection prunes its own freshly built candidate-transport map.",
         "4/C04"),
 "C05": (True, "must-pass / reachability path rules with nil-fact path sensitivity on go/ssa (io.Reader contract, defer registration, pairing)",
         "Decides on every path of halfPipe/Proxy: data returned with a read error is written before the loop exits; the written slice is the read prefix and counters use the write count; the loop continues only after a full, error-free write; "
         "WaitGroup release and close of both connections are deferred before the first return and the closer always reaches Close; wg.Add matches the goroutines started; session gauge paired; covert and client connections closed by defers. "
         "This covers every fault position structurally (each exit edge of the loop), which the sampled fault tests cannot; stream equality under all chunkings is not decided. Also decided: every write count is added to the tunnel counter before any exit of halfPipe, and the deferred teardown closes both sides on every path through it.",
         "4/C05"),
 "C06": (True, "single-resolution count, value-flow of the returned literal, guard dominance of the policy tests and their polarity, must-pass store-before-valid, who-may-write (Covert), reviewed dial-site table (go/ssa)",
         "Decides for every covert string and configuration: the guard resolves at most once and every non-empty result is JoinHostPort of that one resolution's address, dominated by the not-blocklisted edges of the subnet test on that same address and of the domain test on the resolved host, a 16-bit port parse and a successful resolution; the subnet test consults allowlist/blocklist with the right polarity; "
         "no path reaches AddRegistration without storing that literal into reg.Covert and passing its non-empty test; Covert has exactly the two reviewed writers; the proxy dials the stored string verbatim and no other dial site in station code takes a value derived from a registration's covert or original message. "
         "Textual address forms and subnet arithmetic are not decided. Also decided: the guard and everything it calls keep no state (no field / map / global / channel write), so its answer depends on the current policy only.",
         "4/C06"),
 "C07": (True, "guard dominance and edge-reachability of every admission condition, must-pass probe, value checks on the shared wrapper, typed error discipline (go/ssa)",
         "Decides the 'only if' direction for every input and configuration: the validate/announce step is dominated by ValidateRegistration (true, nil), a non-empty checked covert, and is unreachable from the live-phantom edge, from the duplicate edge and (detector source) from the blocklisted-phantom edge; the probe is sent only for non-prescanned IPv4 phantoms after the covert check and cannot be bypassed for them; "
         "ValidateRegistration rejects each incomplete field, unknown transports and (non-detector) blocklisted phantoms; per-family construction is gated by client support, station flag and an IPv4 registrant; an IPv6 registrant with an IPv4 phantom never yields a registration; NewRegistration succeeds only if every derivation returned no error; sharing is gated, after the probe, at most once, marked pre-scanned/DetectorPrescan and suppressed for the IPv6 twin. "
         "Completeness (the 'if' direction) and the meaning of the predicates are not decided. Also decided: the manager-level PhantomIsLive returns, on every path, the tester's own verdict for the same address and port.",
         "4/C07"),
 "C08": (True, "value-flow key agreement, must-pass pairing, finite predicate abstraction (truth table) of the sweep condition, constant tables (go/ssa)",
         "Decides: the timeout map is keyed by the same function of (phantom, transport identifier) as the registration map at insertion and activation (so each tracked registration has its own record for every history of secrets/transports/families); "
         "both maps are inserted into / deleted from on the same paths and empty per-phantom maps are removed; the sweep selects a record iff (unused && age>T_unused) || age>T_active, exhaustively over all valuations of its atoms; T_unused=10 min and T_active=6 h with no other writer; activation flips the looked-up record; a ticker loop sweeps. "
         "These are history-independent structural conditions; set-level behaviour over concrete histories and wall-clock timing are not decided. Also decided: connection lookups are computed from the live table on every call (no memoised set can survive a removal). Also decided: removeRegistration deletes every selected record from both tables whatever else holds (reachability game; only not-found may stop it).",
         "4/C08"),
 "C14": (True, "effect analysis over the static call closure of the selection entry points, guard dominance, constant evaluation at call sites, value-flow of the port flag (go/ssa)",
         "Decides: nothing reachable from Select/SelectPhantom* reads or writes process-global state (math/rand globals, weightedrand global Pick, time, package variables), so a result depends on its inputs alone under any schedule; "
         "addresses are rendered at fixed family width; every crypto/rand.Int bound is a positive constant at all call sites or dominated by a positivity test (selection fails with an error instead of panicking); the family filter matching v6Support feeds each selection routine; "
         "the address is built only under offset < netSize with a two-sided subnet match; the port-randomisation flag flows from the matched subnet's configuration. Arithmetic containment for every CIDR and uniformity are not decided. Also decided: selection code never writes into memory reachable from its inputs (no element/field/map store, no append to a re-slice, no in-place sort of the configuration), and every subnet base is network-aligned (net.ParseCIDR network or a masked address).",
         "4/C14"),
 "C15": (True, "narrowing-conversion rule (bound / mask / round-trip idioms with dominance), sibling constant agreement, must-pass freshness, who-constructs names (go/ssa)",
         "Decides for all inputs: no encoder in the registration channels narrows a length or count to uint8/uint16 unless the value provably fits (dominating bound, mask/shift, or round-trip test whose failing edge leaves the function), i.e. unrepresentable values are rejected, not altered; "
         "encoder/decoder siblings agree on layout constants (hash slice bounds, complementary representative masks on the same byte, 32-byte header split, prefix widths); randomised obfuscators refill their ephemeral secret from crypto/rand on every path; names sent on the wire come from validating constructors. "
         "The round trips themselves for every payload/key and the Noise exchange are value-level and not decided.",
         "4/C15"),
 "C19": (True, "error-edge reachability (errors propagate, never skip), effect reachability over the reload path, guard dominance of the swaps, contradiction rule for optional fields and integer-division scan over the printers (go/ssa)",
         "Decides for every accepted configuration: in the list loader every parse failure leads, on its error edge, only to a non-nil error return (no entry is dropped silently) and ParseConfig returns a configuration only if the lists parsed; nothing reachable from a reload (ParseConfig, OnReload, selector and GeoIP loaders) calls a panicking or exiting API; "
         "OnReload is called only when the new configuration loaded and replaces the phantom selector only when the new one loaded; for every statistics module registered in main (computed), code reachable from PrintAndReset has no integer division by a run-time value and every call through an optional interface field (nil-checked elsewhere) is dominated by a nil test of that same field. "
         "The full configuration space, TOML decoding and the field-wise copy in OnReload are not decided. Also decided: OnReload takes over every parsed policy field from the field of the same name of the new configuration and never re-parses into the live object; the LRU constructor gets a positive size on every path (a nil *lruCache can never sit in an optional cache field).",
         "4/C19"),
 "C20": (True, "who-may-write over file-creating APIs, guard dominance and must-pass ordering (marshal -> write temp -> rename), value-flow of the rollback, lockset (go/ssa)",
         "Decides for every crash point and write fault: the only file the client library ever creates is a freshly (randomly) named temporary in the ClientConf's own directory; the final name is only ever the destination of a rename, reached only after Marshal and the write both succeeded, and the renamed file is the one written; "
         "a failed SetClientConf restores the pointer loaded before the assignment; every store into the in-memory config is under the write lock and followed by a save on every path. With POSIX rename atomicity (assumed) no crash point can leave a truncated or mixed file. Durability across power loss is not in the statement. Also decided: on the save path every failed marshal / write / sync reaches the caller as an error (it cannot be overwritten by a later result such as Close), also through a write helper.",
         "4/C20"),
 "C16": (True, "must-pass pairing with defers, lockset guarded-by, value-flow key agreement, read-then-err path rule, guard dominance, constant comparison (go/ssa)",
         "Decides: listener registrations (certificate, channel) are released on every exit of an accept; the routing maps and the SCTP read state are only touched under their mutexes; registration, routing, verification and certificate selection use the hello-random / certificates derived from the same PSK with consistent client/server roles on listener, stand-alone server and dialer; "
         "data returned together with a stream error is delivered before the error on the heartbeat receive loop, hbConn.Read and SCTPConn.Read, and heartbeats are filtered before delivery; writes pass the size limit and the flow-control test/wait; the client heartbeat period is below the server watchdog. "
         "Handshake outcomes, cross-delivery under concrete schedules and watchdog timing are not decided. Also decided: the heartbeat watchdog clears the received flag between two inspections, and only the low-watermark case of the flow-control select continues to the write.",
         "4/C16"),
 "C17": (True, "interprocedural taint analysis over go/ssa (context-insensitive, type-based field cells, function values followed through closures/fields/returns): sources = remote/registrant addresses and errors of client-connection operations, sinks = log calls that emit at the default level (set computed from pkg/station/log) incl. logger prefixes and serialised statistics records; guard dominance for the LOG_CLIENT_IP gate",
         "Decides, over-approximately and for every error value and outcome: no value that may textually contain a client address (RemoteAddr, the registrant address, any error returned by an operation on an accepted / wrapped / dialled client connection, and anything derived from those through assignments, fields, containers, closures, repository calls and external calls) reaches a logger call that writes at the default level, a logger prefix, fmt.Print*, or a field of the tunnel-summary / expiry records; sanitisers are recognised structurally (a function whose returns are nil, package sentinels or errno values returns clean data) - the pre-repair sanitisers that returned unknown errors unchanged were reported and repaired. "
         "The LOG_CLIENT_IP gate dominates the only use of the remote address in the flow description, and defaults to false; the registration digest and expiry record have no field fed from the registrant address. One deliberate Info-level line is a listed known finding. "
         "Over-approximation means reports can be infeasible (each one on this tree was triaged by hand); under-approximation is limited to the stated assumptions (external calls do not write tainted data through pointer operands; reflection/unsafe not modelled; 12 dynamic calls not followed, none with a tainted operand - any such call with a tainted operand is reported as undecided).",
         "4/C17"),
 "C18": (True, "finite predicate abstraction of the Lookup conditions, guard dominance (polarity, nil tests, sibling wiring), lockset guarded-by, must-pass pairing (go/ssa)",
         "Decides: each cache Lookup answers true iff the key is present and its age is below the expiration (all valuations); probe results go to the cache of their verdict and hits return their cache's verdict; the probe is reached only on a double miss; "
         "Init wires each cache only from its own duration/capacity setting and passes the capacity it tested; every call through an optional cache is dominated by a nil test of the same field; cache maps only under their mutex; LRU inserts are registered, evictions delete under the lock, LRU sized by the configured capacity. "
         "History-independent structural conditions of 'never stale, never flipped, bounded'; behaviour over concrete histories and the LRU library itself are not decided. Also decided: a cache entry is stored only after the probe made in the same call (directly or through helpers), so a hit cannot renew an entry.",
         "4/C18"),
 "C09": (True, "lockset guarded-by with helper summaries, channel-operation shape rules, lock-order graph, blocking reachability (go/ssa)",
         "Decides for every schedule: the registration maps/flags are only touched under the registration mutex (write lock for writes), the New announcement has a single locked call site dominated by !Valid with Valid=true stored first, "
         "hand-off sends are non-blocking with counted drops and a fixed worker pool, every blocking wait in the pipeline includes the stop signal, lock order is acyclic and nothing blocking runs under the registration lock except the reviewed Redis publish. "
         "These are necessary conditions for race-freedom, announce-once, non-stalling overload and bounded shutdown; serializability and lost updates are not decided. Also decided: the registration lock is never acquired while it may already be held (directly or through a callee: a second RLock behind a waiting writer deadlocks), and no function hands out a guarded tracking map itself. Every Lock/RLock of the station library is released on all paths.",
         "4/C09"),
 "C10": (True, "value-flow of the message literals, constant pairing, interface-implementation enumeration (GetProto), cross-language contract check against rules extracted at token level from src/sessions.rs (go/ssa + text extraction)",
         "Decides for every registration: each announcement field is taken from the designated registration field / parameter; New is paired with the unused lifetime and Update with the active lifetime, the same variables the station expires by; every deployed transport's protocol is a TCP/UDP constant and PhantomProto is written only from it; "
         "the detector's acceptance rules (accepted protocol arms, phantom and client parse requirements, empty-client exception for IPv6 phantoms, v4/v6 mix rejection, conversion before operation dispatch) are extracted from src/sessions.rs on every run and every StationToDetector message the Go side builds — including the shutdown clear — is shown to satisfy them; Cleanup is deferred before signal handling. "
         "The Rust side is read at token level (cannot be type-checked offline); Redis delivery and IP-literal well-formedness of every admitted address are not decided. Also decided: the admission test that rejects an IPv4 phantom for an IPv6 registrant sees the final phantom (no later store), and the clear request is published under a context rooted in context.Background().",
         "4/C10"),
 "C11": (True, "nil-guard dominance for optional protobuf sub-messages (getter/field path normalisation, assign-if-nil and initialised-on-all-paths idioms, entry contracts), length-guard dominance on first-flight slices, reachability + reviewed table for the panic surface, loop-counter bound (go/ssa)",
         "Decides for every external input: no field of an optional protobuf sub-message reached from external bytes is addressed without a dominating non-nil test of that same access path (or a must-pass initialisation), and the payload contract of the registration constructor holds at its call sites; constant-bound slices of the first-flight buffer are dominated by a sufficient length test; "
         "over all code reachable from the external entry points (ZMQ ingest, connection handler and every transport/override implementation, HTTP and DNS handlers) every unchecked type assertion, explicit panic, exit/Fatal/Must call and integer division by a run-time value is in a reviewed table with a reason; the DNS name parser's pointer jump is bounded by an incremented loop counter. "
         "Panics inside dependencies, resource exhaustion, and hangs other than the pointer loop are not decided; the compiler's unproven-bounds list (check_bce) is not used (see DESIGN 7.3). Also decided: variable slice bounds on the externally reachable set follow from a dominating comparison (linear reasoning over lengths and offsets; reader contract; min; reviewed table for three invariant-based accesses), and every function on that set releases the locks it takes on all paths (never hangs).",
         "4/C11"),
 "C12": (True, "must-alias (must-equal set) dataflow for the response object, must-pass/guard dominance, who-may-read, loop-exit shape rules (go/ssa)",
         "Decides: client-supplied response cleared on every path into processing; the forwarded wrapper is rebuilt from a fresh object with signature fields only from the registrar's own Marshal/Sign; at every successful return the pointer handed to the client is provably the object attached to the forwarded wrapper (must-equal analysis with Override modelled as havoc); "
         "parameter overrides gated by the client's flag on registrar and station; the station applies the response's port and the address of its own family; each weighted override loop exits at its first match; exclusions precede any address override. "
         "Object identity and gating hold for all inputs/configurations; equality after protobuf serialisation and the random-address arithmetic are not decided. Also decided: the station applies each field of the forwarded response whenever the response carries it (a reachability game in which every condition other than tests of the response, the family flag and the client opt-out is played by an adversary), and the substituted address is drawn from exactly [base, base + 2^(bits-ones)).",
         "4/C12"),
 "C13": (True, "lockset analysis (may/must) + dominance on go/ssa",
         "Decides on all paths: no registrar mutex is re-acquired while possibly held (the RWMutex reader re-entrancy deadlock), "
         "one selector snapshot per request, every access to the selector under its mutex, reload parses outside the lock, stores only on success, all locks released. "
         "A schedule-independent structural argument: if no path re-acquires, no interleaving with a reload can deadlock on these mutexes. Does not decide termination of Select itself. Snapshots are counted through helpers: a request that obtains the selector more than once (own loads or helper calls) must do so inside one critical section.",
         "4/C13"),
}

# decided in addition since seed rounds 3 and 4 (appended to the level text)
ADD34 = {
 "C01": "the bound of every draw from a derivation stream is the published one (math/big interpreter: the DTLS serial is drawn below 2^130-1; the seeded port is min + one draw below max-min); absent transport parameters stay absent in every wrapping transport's ParseParams; the subnet base is net.ParseCIDR's masked network.",
 "C02": "the sweep examines every record and selects exactly by the expiry condition (shared with C08.3); obfs4 reports a match only after the library handshake returned nil in this call; the classification buffer is a local created by the handler call.",
 "C03": "the handler and the helpers it calls never park on a channel, select or wait group; the GeoIP wrappers return an error only when the database reader returned one.",
 "C04": "markActive sets the record to used whatever else holds (only the two not-found outcomes may stop it); the prefix client writes and flushes prefix and tag before WrapConn returns; the unidentified connection's deadline is set exactly once.",
 "C05": "nothing reachable from Proxy / halfPipe re-acquires or leaks a mutex; the tags Proxy passes make halfPipe attribute the client->covert pipe to 'up' and the other to 'down'.",
 "C06": "success only if the resolution produced an address (empty-host covert, fixed in ea4cb18); domain patterns are compiled from the configured text unchanged and matched against the unchanged host; a delivery reaches the connecting transports only after its covert was checked and replaced; C06.2/C06.3 are decided through helpers and across a predicate/action split of ingestRegistration.",
 "C07": "a successful reload replaces the phantom selector as a whole and station code never edits the generations of a live selector; C07.1 / C07.2 / C07.6 are decided through helpers and across a predicate/action split of ingestRegistration (phase-split queries).",
 "C08": "deletes from the timeout map obey the key discipline; the registration time of a timeout record is written only when the record is created.",
 "C09": "polling receives need a ctx.Done() case; removeRegistration is reached from the one sweeper only (or tolerates a record that is already gone); the share request is always started as its own goroutine.",
 "C10": "registerForDetector is invoked only by register(), on the tracked registration; the announced fields (phantom, port, protocol, registrant address) are written only during construction; the expiry clock of a record is never restarted.",
 "C11": "the DNS registrar's receive loop never parks on a channel, select or wait group; a length test may be established by every caller of an unexported helper instead of the helper itself.",
 "C12": "every exclusion entry is compared with the phantom (a reachability game from the top of the loop body); the cumulative weights are index-aligned with the subnet list they index.",
 "C14": "atomic updates of fields of an input and iteration over a map count as impurity; a parsed subnet carries the port flag of its own configured group.",
 "C15": "a receive buffer handed to a per-message goroutine is allocated per message; UnmarshalAnypbTo decodes with replacing (non-merging) options.",
 "C16": "the receive queue has one producer (the receive loop's goroutine) with a blocking hand-over; verifyCert checks the presented certificate against the expected certificate's key and its result gates success; the credentials come from hkdf.New (extract, then expand) over the secret.",
 "C17": "the generated protobuf getters propagate taint, library structs are tracked per allocation site, the client's DTLS source endpoints are sources; a finding is identified by its log statement, not by the enclosing function.",
 "C18": "every answer of PhantomIsLive is a hit in one of the two caches or a probe made in this call.",
 "C19": "the optional GeoIP section is dereferenced only under a nil test on the reload path; every failed step of the subnet loaders is reported as an error (no fallback that looks like a successful load).",
 "C20": "a failed write / rename is reported on every path (return values resolved along the path); SetClientConf installs the new configuration by replacing the pointer and never writes into the message kept for the roll-back.",
}

ADD5 = {
 "C01": "the configured subnet order is preserved (the only sort is the weight sort) and a generation resolves to its own entry only.",
 "C02": "track clears Valid on every path to the insertion into the table; the DTLS listener's peer check verifies the presented certificate against the secret-derived key (shared with C16.3).",
 "C03": "the prefix table is consistent (shared with C04.3); no read lock of the registration table is re-acquired on the connection path (shared with C09.6).",
 "C04": "the handler gives up (drains) only when nothing is registered for the phantom or no transport is left; the candidate registrations are computed from the live table on every call (shared with C08.6).",
 "C06": "the policy lists are written only by the configuration parser, one append per parsed entry (shared with C19.6).",
 "C07": "the share request is one HTTP request, outside any loop.",
 "C08": "the used mark is unconditional.",
 "C09": "a validated delivery always passes TrackRegistration; a per-phantom map is dropped only under an emptiness test made at that moment.",
 "C11": "slice-to-array conversions count as bound candidates; a method is invoked on an element of an interface-valued map only when the lookup found it.",
 "C12": "the forwarded bytes are storage of this request (MarshalAppend only onto nil / a local); the stored override subnet is net.ParseCIDR's masked network.",
 "C13": "the result of a selection is never parked in processor state; ReloadSubnets neither calls out nor waits on a channel while it holds the write lock.",
 "C15": "TryReveal (and helpers handed the ciphertext) never writes into its input, crypto destination arguments included; a reader parsed with binary.Read / io.ReadFull is never asked for a sized field with a single Read.",
 "C16": "every hand-over to the reader is behind the heartbeat filter; the channel registered for a secret is made for that registration.",
 "C18": "conditions of the lookup other than presence and age are free atoms of the truth table: an answer that depends on one is a violation.",
 "C19": "every admitted covert passed the subnet lists and the domain patterns (shared with C06.1).",
}

ADD6 = {
 "C01": "selection never narrows a big integer to 64 bits unless it was drawn below a 64-bit bound; the DTLS peer check compares no clock-derived certificate field.",
 "C02": "(shared) the prefix transport looks its registration up under the tag revealed from the whole tag of this connection.",
 "C03": "the prefix lookup key (shared with C02.4); a TCP peer's address is read from its *net.TCPAddr, not re-parsed from text.",
 "C04": "no connection type of the transports takes one write lock in both Read and Write; the per-phantom table is keyed by net.IP.String() at every site.",
 "C05": "no relay connection is closed with a zero linger interval; the DTLS receive loop reads every message into a buffer allocated for it (shared with C16.4).",
 "C06": "an interface address reported as a network is blocklisted as that network when covert_blocklist_public_addrs is set.",
 "C07": "the probe answers 'not live' only when nothing was reported before the deadline or the report is a timeout; the covert of a registration is written at construction and admission only (shared with C06.3); the phantom blocklist is passed by every source but the local detector.",
 "C08": "MarkActive completes (is called, not deferred) before the relay starts.",
 "C09": "table entries are deleted by the sweep's removeRegistration only (or under a not-valid test); no goroutine adds itself to the wait group that waits for it.",
 "C10": "every registration NewRegistrationC2SWrapper returns carries the registrant address.",
 "C11": "the candidate set handed to connection handlers is a copy made under the lock (shared with C08.6).",
 "C12": "a failed phantom selection fails the bidirectional request; the processor keeps the whole configured exclusion list.",
 "C13": "on SIGHUP the subnets are reloaded before the new ClientConf generation is published; selection only reads the selector (shared with C14.1).",
 "C14": "sync.Map writes on an input count as impurity.",
 "C15": "readMessage refuses a message only with the error of a field read; the encoder's compression-pointer chains stay within the decoder's pointer limit (genuine defect, fixed in 59fdb69).",
 "C16": "(shared with C05.8) per-message receive buffer.",
 "C17": "getpeername is a source, single bytes carry address taint, and a gate on a logger's own level field counts only if New initialises the field from the package default.",
 "C18": "after a probe the answer is the probe's verdict; every insertion into the LRU cache's map is registered with the LRU.",
 "C19": "the phantom blocklist is applied to every source except the local detector; the reload path deletes nothing from the registration tables.",
 "C20": "the store marshals with the required-field check the loader applies (no AllowPartial).",
}

ADD7 = {
 "C02": "a registration's transport parameters are the value its transport's ParseParams returned (never a raw message); a matched connection marks only the record under the matched registration's own (phantom, identifier) key as used, and nothing else in the package flips a record to used.",
 "C03": "from the listener's Accept to the classification handler the accepted connection goes to the handler goroutine and to nothing else, and the carrier reaches the handler unless a call on the connection (or its descriptor) failed; the manager's GeoIP database (called without a nil test by the handler) is replaced only by a database that opened.",
 "C04": "(shared with C05.11) the relay buffer of each pipe is a fresh allocation private to that pipe.",
 "C05": "each forwarded chunk pushes out the read deadline of the source and both deadlines of the destination on every path back to the next Read; the open-session gauge moves only by the +1 / -1 of addSession / removeSession (no store, no whole-object reset); the buffer Read fills is allocated by that call of halfPipe (or a fresh allocation of its own handed in by every caller).",
 "C06": "(shared with C19.2) a reload takes over every parsed policy list from the same-named field of the new configuration on every path, unconditionally.",
 "C07": "nothing in the program writes the address-family switches enable_v4 / enable_v6.",
 "C08": "every call of the sweep selects the expired records and removes each of them: selection and removal loop are reached whatever any condition says (an empty selection excepted); activation marks only the matched registration's own record (shared with C02.14).",
 "C09": "a channel handed to worker goroutines is closed only after the wait for those workers.",
 "C10": "the clear request is sent only by main's deferred Cleanup, and the ingest pipeline returns only after its workers returned (no New can follow the Clear).",
 "C11": "x[len(x)-k] indexing needs len(x) >= k (strings.Split results are never empty, strings.Fields* results can be); every loop on the externally reachable paths is a range loop, a counted loop, or consumes an input stream / waits for an event (65 today; anything else must be in a reviewed table, which is empty).",
 "C12": "the station applies the response's transport parameters whenever they are present and the client allows overrides - no other condition (the address family being built) decides it.",
 "C13": "from the ReloadSubnets call in the SIGHUP handler every path leads back to the receive from the signal channel (no return / exit of the handler goroutine after a failed reload); ReloadSubnets itself contains no channel operation, select or wait.",
 "C14": "where a SubnetFilter is applied, the selection routine receives the filter's result; the unfiltered list only on the filter == nil edge.",
 "C15": "the tag obfuscators' key search ends only with a key for which ScalarBaseMult reported a representative (helper-aware); Noise cipher states are never stored in a field, map or global of the DNS registrar; the requester's receive loop queues the payload of every response that parses.",
 "C16": "the watchdog flag is raised only under the comparison of the received message with the heartbeat payload; a slot the accept loop takes from a bounded channel for a handshake is released on every exit of that handshake goroutine; the registered certificate pair is certsFromSeed(PSK)#0 / #1 whichever function fills it.",
 "C18": "phantomLookup answers (false, nil) unless one of the caches had a hit (PhantomIsLive takes any error as a cache answer); liveness.New returns a tester allocated by that call (no registry of earlier testers); Init's wiring rule sees through a constructor-choosing helper.",
 "C19": "the manager's GeoIP database is replaced only if the open did not fail (err == nil or ErrMissingDB); the policy take-over in OnReload is unconditional; nothing statically reachable from the expiry pass is an unchecked type assertion, explicit panic, exit call or integer division by a variable.",
}

ADD8 = {
 "C01": "a successful reload replaces the phantom selector as a whole (shared with C07.8); SetClientConf installs the configuration it was handed, never a merge with the previous one.",
 "C02": "the handler offers every transport the live registration manager (no per-connection snapshot of the registrations).",
 "C03": "the unidentified connection is never handed to a goroutine or deferred call while the handler carries on; the handler reads the peer's bytes into a buffer allocated by that call.",
 "C04": "the obfs4 mark search starts at representative + minimum padding; WrapConnection and the helpers of its package write no map, field or package variable that outlives the call.",
 "C05": "SCTPConn.Close closes the transport under it on every path; a deadline armed on a connection from the handshake context is cleared on that same connection before every successful return (any function of pkg/dtls).",
 "C06": "with the allowlist enabled the blocklist is never what decides (it is read only on the enableCovertAllowlist == false side).",
 "C07": "a delivery is tracked before its liveness probe and before it is shared; nothing is merged into the shared message's flags after the pre-scanned mark is set.",
 "C08": "only the expiry sweep deletes entries of the registration tables (shared with C09.14).",
 "C09": "the liveness LRU is never modified while the cache mutex may be held (its eviction callback takes it); a reload swaps in the parsed policy lists, it never re-parses into the live object (shared with C19.2).",
 "C10": "Cleanup sends the clear on every path; updateInDetector is invoked by markActive only, for its own registration.",
 "C11": "a length guard written as len(x) != 0 counts; no function on the externally reachable paths calls itself except the reviewed json.Marshal fallback of the registration digest, whose field types are checked to be infallible; every certificate pair stored in the DTLS listener's table has both certificates set.",
 "C12": "the exclusion test is followed into a predicate helper of the package.",
 "C13": "no value of a registrar type that contains a mutex is copied (value receivers, whole-struct loads).",
 "C14": "Select tests the configuration taken from the generation table against nil (not merely for presence) before using it.",
 "C15": "every encoding generates its own ephemeral key (no successful return without ScalarBaseMult in that call); the pointer depth is recorded for every suffix written verbatim; chunks() appends a remainder only when it is not empty.",
 "C16": "every sctp.Config of the package sets the same maximum message size.",
 "C17": "the SCTP library is given its own default logger factory, untouched.",
 "C19": "optional fields of the configuration messages are not dereferenced bare on the reload path; the whole-selector replacement of C07.8 is part of C19.2.",
 "C20": "saveClientConf reports success only after the rename (no 'unchanged' shortcut); everything SetClientConf (or a method it calls on the same object) writes before the save is written again on the failure path.",
}

ADD9 = {
 "C01": "the registrars rewrite a registration's ClientConf generation only on the bidirectional path (where the newer ClientConf goes back to the client).",
 "C02": "the connecting-transport attempt is reachable only through AddRegistration, for the delivery itself.",
 "C03": "the candidate set the transports range over is a copy made under the lock (shared with C11.9); returns of the handler before the deadline is armed sit directly behind a nil test (no address / failed lookup).",
 "C04": "activation writes the record held by the timeout table, not a copy (shared with C08.4); a candidate list walked by index does not lose an element to the removal of its neighbour.",
 "C05": "hbConn.Read tries the receive queue (non-blocking) before the wait that includes the closed channel.",
 "C06": "isBlocklistedCovertDomain reads the pattern list on every path.",
 "C07": "admission (and sharing) is unreachable from the probe once the edges on which the verdict is 'not live' are removed - whatever error value came with it.",
 "C08": "the two registration tables are assigned only where the registry is constructed (never swapped for a rebuilt copy).",
 "C09": "the statistics report calls its modules with no Stats mutex held; registrationExists answers 'not tracked' only behind a missed lookup; the tables are never replaced (shared with C08.11).",
 "C10": "nothing the ingest path calls writes into an address / byte slice it was handed (net.IP.To16 / To4 aliasing modelled).",
 "C11": "a message allocated locally and then unmarshalled into is external input for the nil-guard rule (a hole that hid direct field access on its sub-messages is closed); the liveness LRU is never modified under the cache mutex (shared with C09.17).",
 "C12": "the forwarded wrapper carries the response in RegistrationResponse whatever the authentication mode; once read from the response, the phantom address is not reset before it is stored.",
 "C13": "nothing that may only be called once (expvar.New*, MustRegister, flag, http.Handle) is called on the reload path.",
 "C14": "math/rand Intn / Int63n bounds are positive constants or guarded; the configured subnet strings are never rewritten.",
 "C15": "TryReveal's minimum length equals the encoding of the empty tag (48 GCM / 32 CTR, by value); the DNS decoders store no constant into a decoded field.",
 "C16": "handshake deadlines are cleared on the connection they were armed on (shared with C05.12); Read drains its queue before reporting the close (shared with C05.13).",
 "C19": "the statistics maps are iterated only with their mutex in the must-held set (a map picked up under the lock and walked after it is still the live map).",
 "C20": "the assets package never links or symlinks a file.",
}

ALL = ["C%02d" % i for i in range(1, 21)]

def main():
    checks, na = [], []
    for pid in ALL:
        ent = P.get(pid)
        if ent and ent[0]:
            checks.append({
                "property_id": pid,
                "quick_cmd": "./check %s quick" % pid,
                "thorough_cmd": "./check %s thorough" % pid,
                "evidence_file": "/verif/evidence/%s.json" % pid,
                "replay_cmd_template": "cat {path}",
                "engine": "cjverif",
                "level_claimed": {"category": "other", "text": ent[2] + (" Further decided (seed rounds 3-4, DESIGN 10.5): " + ADD34[pid] if pid in ADD34 else "") + (" Round 5: " + ADD5[pid] if pid in ADD5 else "") + (" Round 6: " + ADD6[pid] if pid in ADD6 else "") + (" Round 7: " + ADD7[pid] if pid in ADD7 else "") + (" Round 8: " + ADD8[pid] if pid in ADD8 else "") + (" Round 9: " + ADD9[pid] if pid in ADD9 else ""), "design_ref": "DESIGN.md section " + ent[3] + " and 10.2"},
                "level_note": NOTE,
                "technique": "static analysis: " + ent[1],
            })
        else:
            reason = ent[4] if ent and len(ent) > 4 else "static check not built yet in this session (planned in DESIGN.md section 4); not claimed until it runs"
            na.append({"property_id": pid, "reason": reason})
    m = {
        "version": 1,
        "setup_cmd": "cd /verif && GOFLAGS=-mod=mod GOPROXY=off GOSUMDB=off GOTOOLCHAIN=local go build -o bin/cjverif ./cmd/cjverif",
        "hooks": {
            "guard": "verif",
            "enable": "no hooks are needed: the analyser reads /repo's source with the tag off (the code that ships)",
            "baseline_off_cmd": "cd /repo && for m in . ./cmd/application ./cmd/registration-server ./util/station-debug; do (cd $m && env -u GOFLAGS go test -vet=off -count=1 -timeout 25m ./...); done",
            "source_commits": [],
            "add_only": True,
        },
        "engines": [{
            "name": "cjverif", "path": "/verif/cmd/cjverif",
            "serves_properties": [c["property_id"] for c in checks],
            "kind_free_text": "repository-specific static analyser over go/packages + go/ssa (guard dominance/reachability, locksets, interprocedural taint, error classes, draw sequences, bounds, predicate tables, constant tables, cross-language rule extraction); engine fixtures run before every check; short-circuit threading, predicate summaries and phase-split queries see through condition forms and helpers; overlay-based mutant corpus, ~520 rename controls, 96 behaviour-preserving refactoring controls and the replay of 240 independently seeded changes keep it honest",
        }],
        "checks": checks,
        "not_applicable": na,
        "notes": "All checks: exit 0 = every obligation discharged (or violated only by entries of known_findings.json, printed as KNOWN-FINDING); exit 1 + VIOLATION line otherwise; exit 2 = no verdict (load/type error, fixture self-check failed). Thorough tier adds a second analysis with -tags debug, the property's mutant corpus incl. rename negative controls, the replay of the kept seeded changes and of the behaviour-preserving refactoring controls (all self-tests informational). Fix commits in /repo: see DESIGN.md 10.3 and known_findings.json.",
    }
    with open(os.path.join(HERE, "MANIFEST.json"), "w") as f:
        json.dump(m, f, indent=1)
        f.write("\n")
    try:
        import jsonschema
        jsonschema.validate(m, json.load(open("/root/.vp/MANIFEST.schema.json")))
        print("MANIFEST.json valid:", len(checks), "checks,", len(na), "not_applicable")
    except ImportError:
        print("written (jsonschema not available to validate)")

if __name__ == "__main__":
    main()
