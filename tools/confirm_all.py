import json,subprocess,sys,os
OUT=os.environ.get('SEEDOUT','/tmp/seed-out3')
ids=sys.argv[1:]
for pid in ids:
    for v in 'AB':
        d=''+OUT+'/%s/%s'%(pid,v)
        if not os.path.exists(d+'/patch.diff'): print(pid,v,'MISSING'); continue
        m=json.load(open(d+'/meta.json'))
        files=m.get('files_changed',[])
        pk=set(); cmds=[]
        for f in files:
            dn=os.path.dirname(f)
            if dn.startswith('cmd/application'): cmds.append('(cd cmd/application && go test -vet=off -count=1 ./...)')
            elif dn.startswith('cmd/registration-server'): cmds.append('(cd cmd/registration-server && go test -vet=off -count=1 ./...)')
            else: pk.add('./'+dn+'/')
        if pk: cmds.append('go test -vet=off -count=1 '+' '.join(sorted(pk)))
        testcmd=' && '.join(sorted(set(cmds))) or 'true'
        dest=m.get('demo_dest','')
        demos=sorted(os.listdir(d+'/demo'))
        if dest.endswith('/') or not dest.endswith('.go'): dest=os.path.join(dest,demos[0])
        import re
        democmd=re.split(r'\s{2,}\(|\s+\((?:run |from )',m.get('demo_cmd',''))[0].strip()
        out=subprocess.run(['/verif/tools/confirm_seed.sh',d,dest,democmd,testcmd],capture_output=True,text=True)
        open(''+OUT+'/%s/%s/confirm.log'%(pid,v),'w').write(out.stdout+out.stderr)
        last=[l for l in out.stdout.split('\n') if l.startswith('RESULT') or 'CONFIRMED' in l or l.startswith('--- FAIL') or l.startswith('FAIL')]
        print(pid,v,' | '.join(last)[:400],flush=True)
