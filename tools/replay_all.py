#!/usr/bin/env python3
"""Replays every kept refactoring control and every kept seeded change through `cjverif trypatch` (all 20 quick checks
in one process per control, the property's own check per seed; ~3 s each) and reports: controls that raise an alarm
their meta.json does not document, and seeds that the check of their own property no longer reports.
usage: tools/replay_all.py [refactors|seeds|all] [-j N]"""
import json, glob, os, re, subprocess, sys
from concurrent.futures import ThreadPoolExecutor

what = sys.argv[1] if len(sys.argv) > 1 else 'all'
jobs = int(sys.argv[sys.argv.index('-j') + 1]) if '-j' in sys.argv else 4
env = dict(os.environ, GOFLAGS='-mod=mod', GOPROXY='off', GOSUMDB='off', GOTOOLCHAIN='local')


def run(patch, prop=None):
    cmd = ['/verif/bin/cjverif', 'trypatch', '-patch', patch] + (['-property', prop] if prop else [])
    return subprocess.run(cmd, capture_output=True, text=True, env=env).stdout


def refactor(d):
    m = json.load(open(d + '/meta.json'))
    out = run(d + '/patch.diff')
    if 'does not apply' in out:
        return (d, 'DOES NOT APPLY')
    alarms = sorted(set(l.split()[0] for l in out.split('\n') if re.match(r'C\d\d tier=', l) and 'new=0' not in l))
    extra = [a for a in alarms if a not in m.get('verif_alarms', [])]
    return (d, 'FALSE ALARM ' + ','.join(extra)) if extra else None


def seed(d):
    m = json.load(open(d + '/meta.json'))
    if os.path.basename(d) in ('C06-B', 'C15-A'):
        return None  # neutralised by a fix / documented miss (DESIGN 10.5)
    out = run(d + '/patch.diff', m['property'])
    if 'does not apply' in out:
        return (d, 'DOES NOT APPLY')
    return None if re.search(r'^\s+(violated|undecided) ', out, re.M) else (d, 'MISSED')


res = []
with ThreadPoolExecutor(jobs) as ex:
    if what in ('refactors', 'all'):
        res += list(ex.map(refactor, sorted(glob.glob('/verif/refactors/*-*'))))
    if what in ('seeds', 'all'):
        res += list(ex.map(seed, sorted(glob.glob('/verif/seeded/C??-?'))))
bad = 0
for r in res:
    if r:
        print(r[1], r[0])
        bad += 1
print('replayed', len(res), 'problems', bad)
sys.exit(1 if bad else 0)
