import json,subprocess,sys,os,re
OUT=os.environ.get('SEEDOUT','/tmp/seed-out3')
NAMES=os.environ.get('SEEDNAMES','EF')
env=dict(os.environ,GOFLAGS='-mod=mod',GOPROXY='off',GOSUMDB='off',GOTOOLCHAIN='local')
for pid in sys.argv[1:]:
    for v,nv in (('A',NAMES[0]),('B',NAMES[1])):
        d=OUT+'/%s/%s'%(pid,v)
        if not os.path.exists(d+'/patch.diff'): print(pid,v,'missing'); continue
        out=subprocess.run(['/verif/bin/cjverif','trypatch','-patch',d+'/patch.diff','-property',pid],capture_output=True,text=True,env=env).stdout
        lines=[l.strip() for l in out.split('\n') if re.match(r'\s+(violated|undecided) ',l)]
        if lines:
            m=re.match(r'(violated|undecided) (\S+) \[([^\]]*)\]',lines[0])
            det='%s: %s'%(m.group(2),m.group(3).split('|',1)[-1][:150]) if m else lines[0][:160]
            rules=sorted(set(re.match(r'(violated|undecided) (\S+)',l).group(2) for l in lines))
            det=', '.join(rules)+' — '+det
        else:
            det='MISSED'
        conf='confirmed in a scratch worktree: patch applies and builds, existing tests of the touched packages pass with it (known DNS failure excepted), demo passes without and fails with the change'
        r=subprocess.run(['/verif/tools/keep_seed.sh',d,'%s-%s'%(pid,nv),det,conf],capture_output=True,text=True)
        print(pid,nv,det[:140])
