#!/bin/bash
# usage: tools/keep_seed.sh <seed dir> <id e.g. C13-A> <detected-by or MISSED> <confirm summary>
d="$1"; id="$2"; det="$3"; conf="$4"
dst=/verif/seeded/$id
mkdir -p "$dst/demo"
cp "$d/patch.diff" "$dst/patch.diff"
cp "$d"/demo/* "$dst/demo/"
python3 - "$d/meta.json" "$dst/meta.json" "$det" "$conf" <<'PY'
import json,sys
m=json.load(open(sys.argv[1]))
m['origin']='independent sub-agent given only the property text and a scratch worktree'
m['confirmed_by_us']=sys.argv[4]
m['detected_by']=sys.argv[3]
json.dump(m,open(sys.argv[2],'w'),indent=1)
PY
echo kept $dst
