#!/bin/bash
# usage: tools/confirm_seed.sh <seed dir> <demo_dest (rel. to repo root)> <demo cmd (run at repo root)> <existing-tests cmd (run at repo root)>
# Confirms in a scratch worktree: patch applies+builds, existing tests pass with it, demo fails with it and passes without it.
set -u
d="$1"; dest="$2"; democmd="$3"; testcmd="$4"
wt=/tmp/wt-confirm-$$
unset GOFLAGS
git -C /repo worktree add --detach "$wt" "${SEED_BASE:-HEAD}" -q || exit 2
cleanup() { git -C /repo worktree remove --force "$wt"; }
trap cleanup EXIT
cd "$wt"
demofile=$(ls "$d"/demo/* | head -1)
echo "--- [1] demo WITHOUT the change (must pass)"
mkdir -p "$(dirname "$dest")"; cp "$demofile" "$dest"
( timeout 900 bash -c "$democmd" ) > /tmp/confirm.$$.log 2>&1; rc_without=$?
tail -3 /tmp/confirm.$$.log
echo "--- [2] apply patch, build"
rm -f "$dest"
git apply "$d/patch.diff" || { echo "APPLY FAILED"; exit 1; }
go build ./... && (cd cmd/application && go build ./...) && (cd cmd/registration-server && go build ./...) || { echo "BUILD FAILED"; exit 1; }
echo "--- [3] existing tests WITH the change (must pass)"
( timeout 1500 bash -c "$testcmd" ) > /tmp/confirm.$$.log 2>&1; rc_tests=$?
grep -E "^(--- FAIL|FAIL|ok|panic)" /tmp/confirm.$$.log | head -20
echo "--- [4] demo WITH the change (must fail)"
cp "$demofile" "$dest"
( timeout 900 bash -c "$democmd" ) > /tmp/confirm.$$.log 2>&1; rc_with=$?
grep -E "^(--- FAIL|FAIL|ok|panic)" /tmp/confirm.$$.log | head -5
rm -f /tmp/confirm.$$.log
echo "RESULT demo_without_rc=$rc_without tests_with_rc=$rc_tests demo_with_rc=$rc_with"
if [ $rc_without -eq 0 ] && [ $rc_with -ne 0 ]; then echo "CONFIRMED (check tests output above for unexpected failures)"; else echo "NOT CONFIRMED"; fi
