#!/bin/sh
# usage: tools/try_seed.sh <seed dir containing patch.diff> <property> — applies the patch to /repo, runs the check, reverts.
d="$1"; p="$2"
cd /repo || exit 2
if [ -n "$(git status --porcelain)" ]; then echo "/repo not clean"; exit 2; fi
git apply "$d/patch.diff" || { echo "patch does not apply"; exit 2; }
cd /verif && bin/cjverif check -property "$p" -no-evidence | cut -c1-400
rc=$?
cd /repo && git checkout -- . && git status --porcelain | head -3
