#!/usr/bin/env python3
"""Writes the prompts for one round of independent sub-agents (seeded breaking changes and
behaviour-preserving refactoring controls). The agents get only a property record (seeds) or an
area of the code (refactorings) and their own scratch worktree - nothing from /verif.

usage: tools/gen_prompts.py <round-number> <seed-letter-range-already-kept e.g. A-L> <refactor series letter e.g. V>
writes /tmp/seedprompts<r>/Cxx.txt and /tmp/refprompts<r>/<S>1..4.txt; outputs are expected under
/tmp/seed-out<r>/Cxx/{A,B} and /tmp/ref-out<r>/<S>n/1..6; worktrees /tmp/wt<r>-Cxx and /tmp/wtr-<S>n.
"""
import json, glob, os, sys

rnd = sys.argv[1]
kept = sys.argv[2] if len(sys.argv) > 2 else 'A-Z'
series = sys.argv[3] if len(sys.argv) > 3 else 'V'

SEED = '''You are helping test a verification tool for the Go project refraction-networking/conjure (a refraction-networking station: registration ingest, phantom selection, transports, proxying). You have your own scratch git worktree of the repository at {wt} (a detached checkout; work ONLY there; never touch /repo or /verif, never commit, never push). The sandbox is offline: no network, no module downloads; the Go toolchain and all dependencies are already present. The repository is a go.work workspace: run go commands from inside {wt} (or its sub-modules cmd/application, cmd/registration-server) WITHOUT setting GOFLAGS=-mod=mod. One test, TestConjureLibConfigResolveBlocklisted in pkg/station/lib, fails in this sandbox even on the unchanged tree (it needs DNS); ignore it.

Here is a semantic property of the system that is supposed to hold (JSON record, including where in the code it is anchored):

{prop}

YOUR TASK: produce TWO independent, realistic source changes (call them A and B) to the repository, each of which BREAKS this property while (1) the whole repository still compiles (`go build ./...` in {wt} and in the cmd/ sub-modules if you touch them) and (2) the existing test suite still passes (at least `go test -vet=off -count=1 ./...` for every package you touched and packages that depend on them; the one known failure above excepted). The changes should look like something a developer could plausibly commit (a refactor, an optimisation, a "cleanup", a feature tweak, a subtle bug), NOT sabotage with an obvious marker. Prefer changes that need something specific to manifest - a particular interleaving, a crash or fault at a particular point, a multi-step sequence of operations, an unusual input, or two cooperating sites that each look fine alone - rather than ones ordinary use or the existing tests would expose at once. A and B should break the property in different ways (different clause, different code site or different mechanism). Keep each change small (ideally under ~40 changed lines).

For EACH change also write a demonstration: a Go test file (or small program) that FAILS (or deadlocks / panics / times out within a bounded time) WITH the change applied and PASSES on the unchanged tree. The demonstration may live inside the relevant package directory as an extra _test.go file (it may use unexported identifiers). Verify both directions yourself.

Deliverables, written to {out}/A/ and {out}/B/ (create the directories):
  - patch.diff      : `git diff` of the source change ONLY (not the demo), relative to the worktree root, applicable with `git apply` on the unchanged tree
  - demo/           : the demonstration file(s), plus a line in meta.json saying where to copy them (path relative to repo root) and the exact command to run
  - meta.json       : {{"property": "{pid}", "title": short title, "breaks": which clause of the property is broken and how, "needs": what is needed for it to manifest (input / interleaving / fault / sequence), "files_changed": [...], "demo_dest": path relative to repo root where the demo file goes, "demo_cmd": exact command (run from the repo root or stated dir), "ran": what you ran and what you observed with and without the change}}
When done, restore the worktree to the unchanged state (git checkout -- . ; remove untracked demo files) so it is clean. Work one change at a time: apply, build, run affected tests, run demo, save, revert.

Constraints: do not edit or delete existing tests; do not add build tags; do not change go.mod/go.sum; the change must not be detectable by simply running the existing suite. Do not read anything under /verif. Final answer: a short summary of A and B (what, where, how it manifests) and confirmation of what you verified.

ADDITIONAL NOTES FOR THIS RUN. (1) The worktree is at a newer commit than the line numbers quoted in the property record; find the code by name. (2) {n} changes for this property were already produced by others; yours must be DIFFERENT ideas (a different mechanism AND a different code site or clause). Re-read the statement, the quantifier and the anchors sentence by sentence and pick parts the earlier ideas did not touch; look also at code the anchors do not name but the property depends on (callers, callees, sibling implementations, configuration parsing, the client side, helper packages, start-up and shutdown code, the two cmd/ main packages), at error / fault paths, at boundary values of the quantifier, at interactions between two functions that are each correct alone, and at clauses of the statement that sound obvious. Write demo commands relative to the repo root (never with your worktree path in them); put exactly ONE demonstration file in each demo/ directory. The earlier ideas were: {titles}. (3) The test TestConcurrentProxy in pkg/station/lib and the tests in pkg/regserver/regprocessor use fixed ZMQ sockets and can fail or hang when other test runs are active on this machine; re-run them alone before concluding anything, and ignore TestConjureLibConfigResolveBlocklisted (needs DNS). The sandbox has no DNS and no redis.{extra}'''

C17X = ' (4) One deliberate exception exists on the unchanged tree and must not be used or counted: the Info-level line "Dropping reg, malformed or blocklisted covert ..." in pkg/station/lib/registration_ingest.go prints the registrant address. Default level = Error*, Info*, Print* (Warn/Debug/Trace are not emitted).'

REF = '''You are helping test a code-analysis tool for the Go project refraction-networking/conjure. You have your own scratch git worktree of the repository at /tmp/wtr-{k} (a detached checkout; work ONLY there; never touch /repo or /verif, never commit, never push). The sandbox is offline; the Go toolchain and all dependencies are present. The repository is a go.work workspace: run go commands from inside /tmp/wtr-{k} (or its sub-modules cmd/application, cmd/registration-server) WITHOUT setting GOFLAGS. One test, TestConjureLibConfigResolveBlocklisted in pkg/station/lib, fails even on the unchanged tree (needs DNS); TestConcurrentProxy and the tests in pkg/regserver/regprocessor use fixed ZMQ sockets and can fail or hang while other test runs are active on this machine - re-run them alone before concluding anything.

YOUR TASK: produce SIX independent, realistic, strictly BEHAVIOUR-PRESERVING refactorings of this part of the code base.

Each refactoring must be something a careful maintainer could commit as pure clean-up. Use a MIX of kinds, at least one of each of these three families: (1) local rewrites - rename locals / parameters / unexported helpers, if/else chain <-> switch, early return <-> nesting, De Morgan / negated conditions, `x := f(); if x {{` <-> `if f() {{`, named results <-> explicit returns, loop forms (range <-> index, `for {{if c {{break}}}}` <-> `for !c`), named constants for literals, declaration moves, reordering of provably independent statements; (2) moving code between functions - extract a block / a condition / a loop body into a new unexported helper, inline a small helper and delete it, split a function into phases, merge duplicated blocks, closure <-> named function or method, hoist a repeated pure sub-expression; (3) data-shape rewrites that keep behaviour - introduce a small local struct or type alias, replace two parallel locals by a struct, replace a boolean parameter of an unexported helper by two helpers (or the reverse), change an unexported helper's parameter order or add an unused-result-free wrapper. Choose central functions (validation, admission, selection, parsing, wrapping, relaying, reload, expiry), vary the kind across the six and spread them over different functions. IMPORTANT: earlier runs already produced these (pick DIFFERENT functions or different transformations): {prev}. Files in scope for this run: {files}.

STRICT REQUIREMENT: the observable behaviour must be exactly the same for EVERY input, error, timing and interleaving - same values, same order of externally visible effects (I/O on connections, log lines and their level, published messages, files written), same locking discipline (what is held where), same error values reaching callers, same goroutines. Do not "fix" or "improve" anything, do not change constants, formats, levels, timeouts, or which errors are logged. If you are not certain a transformation is behaviour-preserving under concurrency and faults, do not use it. For each refactoring write two or three sentences arguing why it preserves behaviour.

For each refactoring: apply it, run `go build ./...` (and in the cmd/ sub-modules if you touched them) and `go vet` + `go test -vet=off -count=1` on the packages you touched (the known failure above excepted), save the deliverables, then revert (git checkout -- .) before starting the next one. Keep each under ~60 changed lines.

Deliverables, written to /tmp/ref-out{r}/{k}/1 ... /tmp/ref-out{r}/{k}/6 (create the directories): patch.diff (`git diff` relative to the worktree root, applicable with `git apply` on the unchanged tree) and meta.json {{"title": short title, "kind": kind of refactoring, "files_changed": [...], "why_equivalent": your argument, "ran": what you ran}}. When done leave the worktree clean. Do not read anything under /verif. Final answer: a one-line summary per refactoring.'''

GROUPS = {
    '1': 'pkg/station/lib/registration.go, pkg/station/lib/registration_ingest.go, pkg/station/lib/registration_config.go, pkg/station/lib/config.go',
    '2': 'cmd/application/conns.go, cmd/application/main.go, pkg/station/lib/proxies.go, pkg/station/liveness/*.go, pkg/station/geoip/*.go',
    '3': 'pkg/regserver/regprocessor/regprocessor.go, pkg/phantoms/*.go, pkg/core/keys.go, pkg/transports/transports.go, pkg/transports/obfuscate.go, pkg/transports/anypb_nourl.go, pkg/regserver/apiregserver/apiregserver.go, cmd/registration-server/*.go',
    '4': 'pkg/dtls/*.go, pkg/transports/wrapping/*/*.go, pkg/transports/connecting/dtls/*.go, pkg/registrars/dns-registrar/{dns,msgformat,responder,requester}/*.go, pkg/client/assets/assets.go',
}

props = {json.loads(l)['id']: json.loads(l) for l in open('/verif/properties.jsonl')}
os.makedirs('/tmp/seedprompts' + rnd, exist_ok=True)
os.makedirs('/tmp/refprompts' + rnd, exist_ok=True)
for pid, pr in props.items():
    titles = []
    for d in sorted(glob.glob('/verif/seeded/%s-[%s]' % (pid, kept))):
        titles.append(json.load(open(d + '/meta.json'))['title'])
    s = SEED.format(wt='/tmp/wt%s-%s' % (rnd, pid), out='/tmp/seed-out%s/%s' % (rnd, pid), pid=pid,
                    prop=json.dumps(pr, indent=1), n=len(titles),
                    titles=' ;; '.join('"%s"' % t for t in titles), extra=C17X if pid == 'C17' else '')
    open('/tmp/seedprompts%s/%s.txt' % (rnd, pid), 'w').write(s)
prev = []
for d in sorted(glob.glob('/verif/refactors/*')):
    try:
        prev.append(json.load(open(d + '/meta.json'))['title'])
    except Exception:
        pass
for n, files in GROUPS.items():
    k = series + n
    open('/tmp/refprompts%s/%s.txt' % (rnd, k), 'w').write(REF.format(k=k, r=rnd, prev=' ;; '.join(prev), files=files))
print('seed prompts', len(props), 'refactor prompts', len(GROUPS), 'previous refactor titles', len(prev))
